"""C14 — skip lists remove exactly the named attributes, at save or load time.

Shape L, level exploration. One 3-level attribute-nested graph Top -> Mid -> Inner whose levels share
attribute names (scalars, arrays, tensors incl. a Parameter, containers, objects; `Inner.__new__` already
sets one attribute, so that a skipped name can exist on the object before anything is restored) is pushed
through the whole skip-list lattice on the real `save(skip=...)` / `load(skip=...)`:

  names : every subset of a 7-name universe (names present at one depth, at several depths, at none)
          x when {save, load, both, split between save and load} x store {zip, dir}
          (thorough: every assignment of each name to {nowhere, save, load}, i.e. all disjoint pairs, + both);
          bare-string and tuple forms of `skip` for the singletons;
  types : every subset of size <= 2 of {ndarray, Tensor, int, str, float, list, dict, Inner} at save time
          x store; every (name, type) pair with the name given at save or at load time.

  histories : every ordered pair (thorough: triple) of save calls from six skip configurations {none, names A, names B
          (disjoint), types T1, types T2, names+types} on one object and on two objects, every call to its own target, every
          target loaded afterwards (plain, and with a load-time skip) and compared with the object pruned by THAT call's
          lists only; the same pairs through `Ptychography.save(skip=..., save_raw_data=...)` on a tiny real reconstruction
          (checks/_ptycho.build), read back with load() and `Ptychography.from_file(..., dset=...)`. Module-level lists /
          dicts / sets, class-level ones and mutable default arguments of serialize.py and ptychography.py are found by
          introspection, snapshotted before anything is saved, restored in place before every work item and compared after
          every history ("a save must not depend on earlier saves"; a changed mutable is a failure class of its own).

  reload    : graphs mixing objects created before and after importlib.reload of the serialize module (child old / parent
          new, child new / parent old, both old), each pairing in a subprocess: 5 name sets x when x store + 3 type sets.
  root kinds: besides the plain root, an attrs-style root and a hybrid root (AutoSerialize AND torch.nn.Module, with an
          nn.Parameter, a persistent and a non-persistent buffer, a sub-module, a nested plain child, a nested hybrid child):
          every member kind skipped by name at save / load / both, and by type at save; oracle = the unskipped load with
          those members removed through the attribute protocol (hasattr, named_parameters / buffers / children, state_dict).
  spellings : the skip argument spelled as list (canonical), tuple, set, with duplicates, bare str, bare type, types
          first, generator - at save time and at load time, through AutoSerialize.save / load() and through
          Ptychography.save (the one override in the library that handles skip itself; found by a static scan) on a tiny
          real reconstruction with a plain nested child, both stores, save_raw_data False / True.
  hybrid    : a nested object that is both AutoSerialize and torch.nn.Module, reached through an attribute: six name sets x
          when {save, load, both} x store. The serializer stores it whole through torch.save, so skipped names survive inside
          it: a registered KNOWN finding, emitted under its own class (relation=skip_reaches_nested_object,
          nested_kind=autoserialize_and_nn_module); anything else that differs on that graph gets another class.

  instances : "an instance of a listed type" in every way Python knows: the concrete class, a base class (bool for int is in the
          lattice above; nn.Parameter / nn.Module / np.generic / PurePath / AutoSerialize here), abstract base classes with virtual
          subclasses (numbers.*, collections.abc.*, os.PathLike), a user ABC with register(), an ABC with __subclasshook__,
          runtime-checkable Protocols, a metaclass with __instancecheck__, object: 44 types x store (quick: both stores for one
          member of every way, alternating otherwise) + all pairs of a 10-type pool, at save time, on a graph with an attribute
          of every value kind (Python / NumPy scalars, str, bytes, None, paths, arrays incl. 0-d, tensors, a Parameter, a module,
          list / tuple / dict / set / frozenset / range / container subclasses, a Generator, nested objects) at the root and at
          two nested levels; five of the types on the hybrid root (registered parameters / buffers / sub-modules). Oracle:
          absent iff isinstance(original value, listed). Spellings outside the signature (a tuple nested in the list, a PEP 604
          union, a typing alias) must be refused (exception, nothing written), or get isinstance semantics, or be ignored as a
          whole (HEAD: ignored, like every element that is neither str nor type); the outcome is counted.

Oracle: a fresh in-memory build of the graph with the named attributes (and the attributes that are
instances of a listed type) deleted at every level reached through attributes, compared with the C01
structural-equality relation — survivors are compared for equality, not just presence; dict keys and
container elements that merely look like a skipped name must survive. load-time == save-time is checked
exactly between the two loaded graphs.
"""
from __future__ import annotations

import itertools

from mc.harness import Broken, Tally

from checks import _serial as S

LEVEL = "exploration"
TECHNIQUE = "exhaustive enumeration of the skip-list lattice (name subsets x when x store, type subsets) on the real save/load, pruned in-memory graph as oracle"
CLAIM = (
    "For a 3-level attribute-nested graph with shared attribute names, every subset of a 7-name universe (present at one depth, "
    "several depths, nowhere) is skipped at save time, at load time, at both and split between the two, in both stores, and every "
    "type list of size <= 2 over 8 types is skipped at save time; each loaded object is compared with the in-memory graph from "
    "which exactly those attributes were deleted at every attribute-nested level, using the C01 structural-equality relation, so "
    "survivors are checked for equality and nothing else may disappear or appear; recorded lists are honoured by a plain load and "
    "load-time skipping gives exactly the save-time result. Every ordered pair (thorough: triple) of save calls over six skip "
    "configurations, on one object and on two, through AutoSerialize.save and through Ptychography.save (with and without raw data) "
    "on a tiny real reconstruction, is executed in one process with every target judged by its own call's lists only, and the "
    "module-level mutable state of serialize.py and ptychography.py must be unchanged after every history. The type lists also cover "
    "every way in which a value can be an instance of a listed type (concrete class, base class, abstract base classes with virtual "
    "subclasses from numbers / collections.abc / os, a user ABC with register(), __subclasshook__, runtime-checkable Protocols, a "
    "metaclass __instancecheck__, object), singly and in pairs, on a graph with an attribute of every value kind at the root and at "
    "nested levels and on a hybrid module root: an attribute is absent iff isinstance(original value, listed types) holds. Exploration is the right level: the property is a statement over a "
    "finite lattice of skip lists, each point decided exactly by one execution."
)
NOTE = (
    "Trusted: the pruning oracle (12 lines) and the equality relation of checks/_serial.py; one graph shape (the quantifier's "
    "'all object graphs' is covered by C01's grammar without skip lists); nested AutoSerialize objects are reached through "
    "attributes only, as the quantifier says; type skipping is exercised at save time only, as the statement says. Ptychography "
    "objects: nested models and datasets are torch modules, which the serializer stores whole, so the oracle prunes the top level only and "
    "skip names are chosen among top-level-only attributes; the _dataset_metadata written by Ptychography.save is checked for presence, not content."
)
RULE = (
    "Full enumeration of name subsets x when x store and of type subsets x store (plus name x type pairs) on one 3-level graph, plus every "
    "ordered pair (thorough: triple) of save calls over six skip configurations x {one object, two objects} through AutoSerialize.save and Ptychography.save. "
    "Every member of the instance-relation type alphabet (44 types in 8 ways of being an instance) x store, every pair of a 10-type pool, 5 type lists on a hybrid root. "
    "A point is non-trivial when its skip lists remove at least one attribute of the graph; distinct = distinct (skip lists, when, store)."
)

STORES = ("zip", "dir")
UNIVERSE = ["a", "arr", "t", "mid", "inner", "q", "zzz"]
TYPE_NAMES = ["ndarray", "Tensor", "int", "str", "float", "list", "dict", "Inner"]


def type_of(name):
    import numpy as np
    import torch

    d = {
        "ndarray": np.ndarray, "Tensor": torch.Tensor, "int": int, "str": str, "float": float, "list": list, "dict": dict,
        "bool": bool, "Inner": S.Inner, "Generator": np.random.Generator, "Parameter": torch.nn.Parameter, "Module": torch.nn.Module,
        "Mid": S.Mid, "NodeA": S.NodeA, "HybridInner": S.HybridInner,
    }
    return d[name] if name in d else _instance_type(name, concrete=False)


def graph_desc():
    L, C, D, O = S.L, S.C, S.D, S.O
    inner = O(
        "Inner", a=L("i-1"), arr=L("arr:f64:(3,)"), t=L("t_f32_grad"), s=L("s"),
        lst=C("list", L("i0"), L("s"), L("arr:i16:(3,)")), n=L("none"), q=C("tuple", L("i2^40"), L("s")),
    )
    mid = O(
        "Mid", a=L("f0.5"), inner=inner, b=C("list", L("i-1"), L("i0")), tup=C("tuple", L("path_rel"), L("f1.5")),
        w=L("t_param"), t=L("s_unicode"),
    )
    top = O(
        "Top", a=L("i2^40"), mid=mid, c=D(("a", L("i0")), ("t", L("s")), ("arr", L("arr:u8:(3,)"))),
        arr=L("arr:i16:(2, 3)"), p=L("f1.5"), flag=L("true"), st=C("set", L("s"), L("s_empty")), name=L("s_unicode"),
    )
    return top


GRAPH = graph_desc()


def prune(obj, names, types):
    """The oracle: delete the named attributes / instances of the listed types at every attribute-nested level."""
    removed = 0
    for k in list(vars(obj)):
        v = vars(obj)[k]
        if k in names or (types and isinstance(v, types)):
            delattr(obj, k)
            removed += 1
        elif isinstance(v, S.AutoSerialize):
            removed += prune(v, names, types)
    return removed


def expected(seed, names, types):
    x = S.build(GRAPH, seed)
    n = prune(x, set(names), tuple(type_of(t) for t in types))
    return x, n


def _skip_arg(names, types, form="list"):
    lst = list(names) + [type_of(t) for t in types]
    if form == "str":
        assert len(lst) == 1
        return lst[0]
    if form == "tuple":
        return tuple(lst)
    return lst


def _cls(rec, relation, when):
    """Failure class: coarse on purpose (the names involved go to the message, not to the class)."""
    c = {"relation": relation, "when": when.split("_")[0], "what": rec["what"], "kind": rec["kind"]}
    if rec.get("extra") or rec.get("missing"):
        c["direction"] = "not_removed" if rec.get("extra") and not rec.get("missing") else "survivor_lost" if rec.get("missing") and not rec.get("extra") else "both"
        leaked = sorted(n for n in rec.get("extra") or [] if isinstance(n, str) and not S.name_allowed(n))
        if leaked:  # reserved metadata names on the loaded object: not a skip-list decision at all
            c["direction"] = "extra"
            c["reserved_names_leaked"] = leaked
    return c


def _judge(fails, relation, when, store, names, types, exp, status, got):
    label = f"store={store} when={when} skip names={list(names)} types={list(types)}"
    if status != "ok":
        fails.append(({"relation": relation, "when": when.split("_")[0], "symptom": status, "exc": type(got).__name__}, f"{label}: {status.replace('_', ' ')} {type(got).__name__}: {str(got)[:200]} (expected: the pruned graph)"))
        return None
    d = S.diff(exp, got, slack=True, root="top")
    if d:
        fails.append((_cls(d[0], relation, when), f"{label}: loaded object differs from the in-memory graph with those attributes removed: {S.fmt(d)}"))
        return None
    return got


def _load(p, skip):
    try:
        with S.quiet():
            return "ok", (S.q_load(p, skip=skip) if skip is not None else S.q_load(p))
    except Exception as e:
        return "load_raises", e


def _save(x, p, store, skip):
    try:
        with S.quiet():
            if skip is None:
                x.save(p, store=store)
            else:
                x.save(p, store=store, skip=skip)
        return "ok", None
    except Exception as e:
        return "save_raises", e


def run_names(case, seed, scratch, wd=None, reuse=None):
    """One point of the name lattice: {"when", "save": [...], "load": [...], "store": s, "form": list|str|tuple}.
    `reuse` (a dict owned by the caller, valid inside one work directory) lets two points that ask for the very
    same save() share the file: 'save' and 'both' differ only in the load call."""
    fails = []
    s_save, s_load, store, form = case["save"], case["load"], case["store"], case.get("form", "list")
    names = sorted(set(s_save) | set(s_load))
    when = case["when"]
    exp, removed = expected(seed, names, ())
    own = wd is None
    ctxm = S.Workdir(scratch, "C14") if own else None
    if own:
        wd = ctxm.__enter__()
    try:
        key = (tuple(s_save), form if s_save else None)
        if reuse is not None and key in reuse:
            p, st = reuse[key]
        else:
            p = S.target(wd, store, f"n{len(reuse) if reuse is not None else 0}")
            st = _save(S.build(GRAPH, seed), p, store, _skip_arg(s_save, (), form) if s_save else None)
            if reuse is not None:
                reuse[key] = (p, st)
        if st[0] == "ok":
            st = _load(p, _skip_arg(s_load, (), form) if s_load else None)
        status, y = st
        got = _judge(fails, "skip_names", when, store, names, (), exp, status, y)
        outcome = S.summary(y) if status == "ok" else [status]
    finally:
        if own:
            ctxm.__exit__(None, None, None)
    return fails, outcome, removed > 0, got


def run_subset(item, seed, scratch, forms=True):
    """All `when` variants of one name subset in one store + exact equality of load-time and save-time results."""
    fails, points = [], []
    subset, store = item["subset"], item["store"]
    results = {}
    variants = [("save", subset, []), ("load", [], subset), ("both", subset, subset)]
    if len(subset) >= 2:
        variants.append(("split", subset[0::2], subset[1::2]))
    if forms and len(subset) == 1:
        variants += [("save_str", subset, []), ("load_str", [], subset)]
    if forms and len(subset) == 2:
        variants += [("save_tuple", subset, []), ("load_tuple", [], subset)]
    with S.Workdir(scratch, "C14") as wd:
        reuse = {}
        for when, s_save, s_load in variants:
            form = "str" if when.endswith("_str") else "tuple" if when.endswith("_tuple") else "list"
            case = {"family": "names", "when": when, "save": list(s_save), "load": list(s_load), "store": store, "form": form, "seed": seed}
            f, outcome, nontrivial, got = run_names(case, seed, scratch, wd=wd, reuse=reuse)
            for cls, msg in f:
                fails.append((cls, case, msg))
            points.append((case, outcome, nontrivial))
            results[when] = got
    if results.get("save") is not None and results.get("load") is not None:
        d = S.diff(results["save"], results["load"], slack=False, root="top")
        if d:
            case = {"family": "names", "when": "load", "save": [], "load": list(subset), "store": store, "form": "list", "seed": seed, "compare_with_save_time": True}
            fails.append((_cls(d[0], "load_time_equals_save_time", "load"), case, f"store={store} names={subset}: load-time result (observed) differs from save-time result (expected): {S.fmt(d)}"))
    return fails, points


def run_types(case, seed, scratch):
    """{"types": [...], "name": optional, "name_when": save|load, "store": s}"""
    fails = []
    types, store = case["types"], case["store"]
    name, name_when = case.get("name"), case.get("name_when", "save")
    names = [name] if name else []
    exp, removed = expected(seed, names, types)
    when = "save" if not name else f"types@save+name@{name_when}"
    with S.Workdir(scratch, "C14") as wd:
        x = S.build(GRAPH, seed)
        s_names = names if name_when == "save" else []
        l_names = names if name_when == "load" else []
        st, y = S.save_load(
            x, wd, store, name="t",
            save_kw={"skip": _skip_arg(s_names, types)} if (types or s_names) else {},
            load_kw={"skip": _skip_arg(l_names, ())} if l_names else {},
        )
        _judge(fails, "skip_types", when, store, names, types, exp, st, y)
        outcome = S.summary(y) if st == "ok" else [st]
    return fails, outcome, removed > 0


# ----------------------------------------------------------------------------- workers
def eval_subset(item, seed=0, scratch="/tmp", forms=True):
    t = Tally()
    state_restore()
    fails, points = run_subset(item, seed, scratch, forms=forms)
    for case, outcome, nontrivial in points:
        t.case(key=[case["when"], case["save"], case["load"], case["store"]], nontrivial=nontrivial, outcome=outcome)
        t.extra["name_points"] += 1
    for cls, case, msg in fails:
        t.fail(cls, case, msg)
    if len(item["subset"]) == 3 and item["store"] == "zip":
        t.sample({"family": "names", "subset": item["subset"], "store": item["store"], "whens": [p[0]["when"] for p in points], "observed": "equal to the pruned in-memory graph; load-time == save-time" if not fails else f"{len(fails)} failure(s)"}, cap=1)
    return t


def eval_pair(item, seed=0, scratch="/tmp"):
    """Thorough tier: one disjoint (save, load) pair of name sets."""
    t = Tally()
    state_restore()
    case = {"family": "names", "when": item["when"], "save": item["save"], "load": item["load"], "store": item["store"], "form": "list", "seed": seed}
    f, outcome, nontrivial, _ = run_names(case, seed, scratch)
    t.case(key=[case["when"], case["save"], case["load"], case["store"]], nontrivial=nontrivial, outcome=outcome)
    t.extra["name_points"] += 1
    for cls, msg in f:
        t.fail(cls, case, msg)
    return t


def eval_types(item, seed=0, scratch="/tmp"):
    t = Tally()
    state_restore()
    case = dict(item, family="types", seed=seed)
    f, outcome, nontrivial = run_types(case, seed, scratch)
    t.case(key=["types", item["types"], item.get("name"), item.get("name_when"), item["store"]], nontrivial=nontrivial, outcome=outcome)
    t.extra["type_points"] += 1
    for cls, msg in f:
        t.fail(cls, case, msg)
    if len(item["types"]) == 2 and not item.get("name"):
        t.sample({"family": "types", "types": item["types"], "store": item["store"], "observed": "equal to the in-memory graph without instances of these types" if not f else f"{len(f)} failure(s)"}, cap=1)
    return t


# ----------------------------------------------------------------------------- hybrid nested object (known finding)
# A nested object that is BOTH AutoSerialize and torch.nn.Module, reached through an attribute. The serializer's
# dispatch takes the nn.Module branch first and stores it whole through torch.save, so skip names are not applied
# inside it. By the letter of the property that is a violation; it is registered as a known finding. This family
# emits exactly one failure class for it (relation=skip_reaches_nested_object, nested_kind=autoserialize_and_nn_module)
# and a DIFFERENT class for anything else that goes wrong on the same graph.
def hybrid_graph_desc():
    L, C, O = S.L, S.C, S.O
    hyb = O("HybridInner", a=L("i0"), arr=L("arr:i16:(3,)"), s=L("s"), w=L("t_param"), lst=C("list", L("i-1"), L("s")))
    mid = O("Mid", a=L("f0.5"), arr=L("arr:f64:(3,)"), b=C("list", L("i-1"), L("i0")))
    return O("Top", a=L("i2^40"), arr=L("arr:i16:(2, 3)"), hyb=hyb, mid=mid, name=L("s_unicode"))


HYBRID_GRAPH = hybrid_graph_desc()
HYBRID_NAME_SETS = [["a"], ["arr"], ["a", "arr"], ["s"], ["lst", "a"], ["zzz"]]
HYBRID_PATH = "top.hyb"


def run_hybrid(case, seed, scratch):
    """{"names": [...], "when": save|load|both, "store": s}. Returns (fails, outcome, nontrivial)."""
    names, when, store = case["names"], case["when"], case["store"]
    state_restore()
    exp = S.build(HYBRID_GRAPH, seed)
    removed = prune(exp, set(names), ())
    fails = []
    label = f"hybrid graph {S.show(HYBRID_GRAPH)} store={store} when={when} skip names={names}"
    with S.Workdir(scratch, "C14") as wd:
        st, y = S.save_load(
            S.build(HYBRID_GRAPH, seed), wd, store, name="hy",
            save_kw={"skip": list(names)} if when in ("save", "both") else {},
            load_kw={"skip": list(names)} if when in ("load", "both") else {},
        )
    if st != "ok":
        fails.append(({"relation": "skip_names_hybrid_graph", "when": when, "symptom": st, "exc": type(y).__name__}, f"{label}: {st.replace('_', ' ')} {type(y).__name__}: {str(y)[:200]}"))
        return fails, [st], removed > 0
    recs = S.diff(exp, y, slack=True, root="top", limit=40)
    known, other = [], []
    for r in recs:
        is_known = (
            r["what"] == "attr_set" and r["path"] == HYBRID_PATH and not r.get("missing")
            and r.get("extra") and set(r["extra"]) <= set(names)
        )
        (known if is_known else other).append(r)
    if known:
        cls = {"relation": "skip_reaches_nested_object", "nested_kind": "autoserialize_and_nn_module", "when": when, "what": "attr_set", "direction": "not_removed"}
        fails.append((cls, f"{label}: at {HYBRID_PATH}: the skipped name(s) {known[0]['extra']} are still present inside the nested hybrid object (AutoSerialize and torch.nn.Module, stored whole by torch.save); expected: absent at every attribute-nested level"))
    for r in other:
        fails.append((dict(_cls(r, "skip_names_hybrid_graph", when), position=r["position"]), f"{label}: loaded object differs from the in-memory graph with those attributes removed, outside the known hybrid defect: {S.fmt([r])}"))
    return fails, S.summary(y), removed > 0


def eval_hybrid(item, seed=0, scratch="/tmp"):
    t = Tally()
    case = dict(item, family="hybrid", seed=seed)
    f, outcome, nontrivial = run_hybrid(case, seed, scratch)
    t.case(key=["hybrid", item["names"], item["when"], item["store"]], nontrivial=nontrivial, outcome=outcome)
    t.extra["hybrid_points"] += 1
    t.extra["hybrid_points_showing_the_known_defect"] += int(any(c.get("relation") == "skip_reaches_nested_object" for c, _ in f))
    for cls, msg in f:
        t.fail(cls, case, msg)
    return t


# ----------------------------------------------------------------------------- objects from before / after a module reload
# `_is_autoserialize_instance` is documented to work "even across autoreloads": an object created before
# importlib.reload(quantem.core.io.serialize) nested in a parent built from the reloaded class (and the reverse pairing, and
# both old) must be treated as a nested subtree, so that skip lists reach inside it. Reloading cannot be undone inside a
# process, so every pairing runs in a subprocess of its own (same interpreter, same environment, hence the same source
# tree), which prints one JSON record; comparisons there are by class NAME, attribute names at every level and value digests.
RELOAD_SCENARIOS = ["child_old_parent_new", "child_new_parent_old", "both_old"]
RELOAD_NAME_SETS = [["a"], ["arr"], ["a", "t"], ["inner"], ["zzz"]]
RELOAD_TYPE_SETS = [["ndarray"], ["Tensor"], ["str"]]
_RELOAD_CLASSES_SRC = """
import quantem.core.io.serialize as ser
class RTop(ser.AutoSerialize):
    pass
class RMid(ser.AutoSerialize):
    pass
class RInner(ser.AutoSerialize):
    pass
"""


def _reload_child_main():
    """Runs in the subprocess: argv[1] = JSON {scenario, seed, scratch, cases or null}."""
    import importlib
    import json
    import os
    import sys
    import warnings

    warnings.simplefilter("ignore")
    arg = json.loads(sys.argv[1])
    scenario, seed, scratch = arg["scenario"], arg["seed"], arg["scratch"]
    moddir = os.path.join(scratch, f"reload-mod-{os.getpid()}")
    os.makedirs(moddir, exist_ok=True)
    with open(os.path.join(moddir, "_c14_reload_classes.py"), "w") as f:
        f.write(_RELOAD_CLASSES_SRC)
    sys.path.insert(0, moddir)
    import numpy as np
    import torch

    import quantem.core.io.serialize as ser
    import _c14_reload_classes as M

    old = {"RTop": M.RTop, "RMid": M.RMid, "RInner": M.RInner}
    ser = importlib.reload(ser)  # what %autoreload does after serialize.py was touched
    M = importlib.reload(M)
    new = {"RTop": M.RTop, "RMid": M.RMid, "RInner": M.RInner}
    assert new["RTop"] is not old["RTop"] and not issubclass(old["RTop"], ser.AutoSerialize)
    top_cls, kid_cls = {"child_old_parent_new": (new, old), "child_new_parent_old": (old, new), "both_old": (old, old)}[scenario]

    def make():
        inner = kid_cls["RInner"]()
        inner.a, inner.arr, inner.t, inner.s = 1, S.make_array("f64", (3,), seed + 41), torch.from_numpy(S.make_array("f32", (3,), seed + 42).copy()), "x"
        mid = kid_cls["RMid"]()
        mid.a, mid.inner, mid.b, mid.t = 0.5, inner, [1, "s"], "label"
        top = top_cls["RTop"]()
        top.a, top.mid, top.arr, top.name, top.c = 2**40, mid, S.make_array("i16", (2, 3), seed + 43), "top", {"a": 0, "arr": S.make_array("u8", (3,), seed + 44)}
        return top

    def is_node(v):
        return hasattr(type(v), "__autoserialize_marker__")

    def snap(v):
        if is_node(v):
            return {"class": type(v).__name__, "attrs": {k: snap(x) for k, x in sorted(vars(v).items())}}
        return S.summary(v)

    def prune_nodes(v, names, types):
        for k in list(vars(v)):
            x = vars(v)[k]
            if k in names or (types and isinstance(x, types)):
                delattr(v, k)
            elif is_node(x):
                prune_nodes(x, names, types)

    def first_diff(e, g, path="top"):
        if isinstance(e, dict) and isinstance(g, dict) and "attrs" in e and "attrs" in g:
            if e["class"] != g["class"]:
                return f"at {path}: class {e['class']} expected, observed {g['class']}"
            ke, kg = set(e["attrs"]), set(g["attrs"])
            if ke != kg:
                return f"at {path}: attribute names expected {sorted(ke)}, observed {sorted(kg)} (extra {sorted(kg - ke)}, missing {sorted(ke - kg)})"
            for k in sorted(ke):
                d = first_diff(e["attrs"][k], g["attrs"][k], f"{path}.{k}")
                if d:
                    return d
            return None
        return None if e == g else f"at {path}: expected {str(e)[:120]}, observed {str(g)[:120]}"

    tmap = {"ndarray": np.ndarray, "Tensor": torch.Tensor, "str": str}
    n = [0]

    def roundtrip(store, save_skip, load_skip):
        n[0] += 1
        p = os.path.join(scratch, f"reload-{os.getpid()}-{n[0]}" + (".zip" if store == "zip" else ""))
        try:
            with S.quiet():
                make().save(p, store=store, **({"skip": save_skip} if save_skip else {}))
                y = ser.load(p, **({"skip": load_skip} if load_skip else {}))
            return "ok", snap(y)
        except Exception as e:
            return "raises", f"{type(e).__name__}: {str(e)[:160]}"
        finally:
            import shutil

            shutil.rmtree(p, ignore_errors=True) if os.path.isdir(p) else (os.path.exists(p) and os.remove(p))

    out = {"scenario": scenario, "roundtrip": {}, "results": []}
    for store in STORES:
        st, y = roundtrip(store, None, None)
        d = first_diff(snap(make()), y) if st == "ok" else y
        out["roundtrip"][store] = "ok" if (st == "ok" and not d) else d
    cases = arg.get("cases")
    if cases is None:
        cases = [{"names": ns, "types": [], "when": w, "store": st} for ns in RELOAD_NAME_SETS for w in ("save", "load", "both") for st in STORES]
        cases += [{"names": [], "types": ts, "when": "save", "store": st} for ts in RELOAD_TYPE_SETS for st in STORES]
    for c in cases:
        if out["roundtrip"][c["store"]] != "ok":
            continue
        names, types = c["names"], tuple(tmap[t] for t in c["types"])
        skip = list(names) + list(types)
        st, y = roundtrip(c["store"], skip if c["when"] in ("save", "both") else None, skip if c["when"] in ("load", "both") else None)
        exp = make()
        prune_nodes(exp, set(names), types)
        d = first_diff(snap(exp), y) if st == "ok" else y
        out["results"].append(dict(c, status="ok" if (st == "ok" and not d) else ("raises" if st != "ok" else "differs"), detail=d))
    import shutil

    shutil.rmtree(moddir, ignore_errors=True)
    print("RELOAD-RESULT " + json.dumps(out))


def run_reload(item, seed, scratch):
    """One pairing in a subprocess. Returns (record or None, stderr tail)."""
    import json
    import subprocess
    import sys

    arg = json.dumps({"scenario": item["scenario"], "seed": seed, "scratch": scratch, "cases": item.get("cases")})
    r = subprocess.run([sys.executable, "-c", "from checks import C14; C14._reload_child_main()", arg], capture_output=True, text=True, timeout=600)
    for line in r.stdout.splitlines():
        if line.startswith("RELOAD-RESULT "):
            return json.loads(line[len("RELOAD-RESULT "):]), ""
    return None, (r.stderr or r.stdout)[-800:]


def eval_reload(item, seed=0, scratch="/tmp"):
    t = Tally()
    rec, err = run_reload(item, seed, scratch)
    if rec is None:
        raise RuntimeError(f"reload subprocess produced no result: {err}")
    sc = item["scenario"]
    for store, st in rec["roundtrip"].items():
        t.extra["reload_roundtrips_without_skip"] += 1
        if st != "ok":  # pre-reload objects do not even round-trip without skipping: counted, not this property's business
            t.extra["reload_roundtrips_without_skip_not_supported"] += 1
    for r in rec["results"]:
        t.case(key=["reload", sc, r["names"], r["types"], r["when"], r["store"]], nontrivial=bool(r["names"] != ["zzz"]), outcome=[r["status"], r["detail"] if r["status"] != "ok" else None][0])
        t.extra["reload_points"] += 1
        if r["status"] != "ok":
            cls = {"relation": "skip_across_module_reload", "scenario": sc, "when": r["when"], "by": "type" if r["types"] else "name", "symptom": r["status"]}
            case = {"family": "reload", "scenario": sc, "cases": [{k: r[k] for k in ("names", "types", "when", "store")}], "seed": seed}
            t.fail(cls, case, f"module reload, {sc}: store={r['store']} when={r['when']} skip names={r['names']} types={r['types']}: {r['detail']} (expected: as without a reload: the names absent at every level, survivors equal)")
    if not rec["results"]:
        t.case(key=["reload", sc, "no_roundtrip"], nontrivial=False, outcome=str(rec["roundtrip"]))
    return t


# ----------------------------------------------------------------------------- kinds of ROOT object
# (i) plain AutoSerialize root: the lattice above. (ii) attrs-style root (__attrs_attrs__). (iii) hybrid root: a class
# that is AutoSerialize AND torch.nn.Module, with plain values, an nn.Parameter, a persistent and a non-persistent
# buffer, a sub-module, a nested plain child (sharing names with the root) and a nested hybrid child.
# Oracle: the UNSKIPPED load of the same object, from which the skipped names (or the instances of the skipped types)
# are removed through the object's own attribute protocol (delattr: Module.__delattr__ for registered members) at the
# root and at nested plain levels. The comparison is made at the protocol level first (attributes, named_parameters,
# named_buffers, named_children, state_dict), then value by value.
ROOT_NAME_SETS = {
    "hybrid": [["a"], ["arr"], ["w"], ["buf"], ["nbuf"], ["lin"], ["child"], ["hyb"], ["plain_t"], ["w", "buf"], ["a", "lin", "nbuf"], ["zzz"]],
    "attrs": [["a"], ["arr"], ["child"], ["a", "t"], ["zzz"]],
}
ROOT_TYPE_SETS = {
    "hybrid": [["Parameter"], ["Tensor"], ["Module"], ["Mid"], ["ndarray"], ["HybridInner"]] + [[t] for t in (
        # instances through a virtual base / hook (see INSTANCE_WAYS below); none of them matches torch's own bookkeeping attributes (dicts, sets, the bool `training`)
        "RegisteredTensorKind", "HasShapeHook", "abc.Callable", "NamedInstanceCheck", "RegisteredKind")],
    "attrs": [["ndarray"], ["Tensor"], ["Mid"]],
}


def build_root(kind, seed):
    import numpy as np
    import torch

    child = S.build(S.O("Mid", a=S.L("f0.5"), w=S.L("arr:i16:(3,)"), lin=S.L("s"), inner=S.O("NodeA", a=S.L("i-1"), buf=S.L("s"), arr=S.L("arr:f64:(3,)"))), seed)
    if kind == "attrs":
        return S.AttrsRoot(a=2**40, arr=S.make_array("i16", (2, 3), seed + 31), s="txt", t=torch.from_numpy(S.make_array("f64", (2, 2), seed + 32).copy()), lst=[1, "s"], child=child)
    h = S.HybridRoot()
    h.a = 2**40
    h.s = "txt"
    h.arr = S.make_array("i16", (2, 3), seed + 31)
    h.plain_t = torch.from_numpy(S.make_array("f64", (2, 2), seed + 32).copy())
    h.w = torch.nn.Parameter(torch.from_numpy(S.make_array("f32", (2, 3), seed + 33).copy()))
    h.register_buffer("buf", torch.from_numpy(S.make_array("f32", (4,), seed + 34).copy()))
    h.register_buffer("nbuf", torch.from_numpy(S.make_array("f32", (2,), seed + 35).copy()), persistent=False)
    h.lin = S._linear(seed, 36)
    h.child = child
    k = S.HybridInner()
    k.ha = 7
    k.hw = torch.nn.Parameter(torch.from_numpy(S.make_array("f32", (2,), seed + 37).copy()))
    h.hyb = k
    return h


def root_members(y):
    """{name: kind} of the root as seen through its own attribute protocol."""
    import torch

    out = {}
    if isinstance(y, torch.nn.Module):
        internals = set(vars(torch.nn.Module()))
        for k in vars(y):
            if k not in internals:
                out[k] = "plain"
        for k, _ in y.named_parameters(recurse=False):
            out[k] = "parameter"
        for k, _ in y.named_buffers(recurse=False):
            out[k] = "buffer"
        for k, _ in y.named_children():
            out[k] = "module"
    else:
        for k in vars(y):
            out[k] = "plain"
    return out


def prune_root(ref, names, types):
    """Remove, through the attribute protocol, what the skip lists name: at the root, at nested plain levels, and (by the
    letter of the property) inside a nested hybrid child too. Returns the names removed at the root."""
    import torch

    removed = []
    for k in sorted(root_members(ref)):
        v = getattr(ref, k)
        if k in names or (types and isinstance(v, types)):
            delattr(ref, k)
            removed.append(k)
        elif isinstance(v, S.AutoSerialize) and not isinstance(v, torch.nn.Module):
            prune(v, names, types)
        elif isinstance(v, S.AutoSerialize):
            prune_root(v, names, types)
    return removed


def run_root_kind(item, seed, scratch):
    """One (root kind, store, skip content): names at save / load / both, or types at save. The unskipped save is made once."""
    import torch

    kind, store = item["root"], item["store"]
    names, types = item.get("names", []), item.get("types", [])
    tt = tuple(_instance_type(t) for t in types)
    whens = ["save"] if types else ["save", "load", "both"]
    fails, points = [], []
    state_restore()
    rel = "skip_at_hybrid_root" if kind == "hybrid" else "skip_at_attrs_root"
    with S.Workdir(scratch, "C14") as wd:
        pref = S.target(wd, store, "ref")
        st = _save(build_root(kind, seed), pref, store, None)
        if st[0] != "ok":
            fails.append(({"relation": rel, "root": kind, "symptom": "save_raises", "exc": type(st[1]).__name__, "when": "none"}, f"{kind} root store={store}: the unskipped save raised {type(st[1]).__name__}: {str(st[1])[:200]}"))
            return fails, points
        for when in whens:
            label = f"{kind} root store={store} when={when} skip names={names} types={types}"
            st, ref = _load(pref, None)
            if st != "ok":
                fails.append(({"relation": rel, "root": kind, "symptom": "load_raises", "exc": type(ref).__name__, "when": "none"}, f"{label}: the unskipped load raised {type(ref).__name__}: {str(ref)[:200]}"))
                break
            before = root_members(ref)
            removed = prune_root(ref, set(names), tt)
            skip = _skip_arg(names, types)
            if when == "load":
                st, y = _load(pref, skip)
            else:
                p = S.target(wd, store, "s" + when)
                st = _save(build_root(kind, seed), p, store, skip)
                if st[0] == "ok":
                    st = _load(p, skip if when == "both" else None)
                st, y = st
            base = {"relation": rel, "root": kind, "when": when, "by": "type" if types else "name"}
            if st != "ok":
                fails.append((dict(base, symptom=st, exc=type(y).__name__), f"{label}: {st.replace('_', ' ')} {type(y).__name__}: {str(y)[:200]}"))
                points.append((when, [st], bool(removed)))
                continue
            want, got = root_members(ref), root_members(y)
            points.append((when, sorted(got.items()), bool(removed)))
            extra = sorted(set(got) - set(want))
            missing = sorted(set(want) - set(got))
            if extra or missing:
                for n in extra:
                    present = [w for w, ok in (("hasattr", hasattr(y, n)), ("state_dict", isinstance(y, torch.nn.Module) and any(k == n or k.startswith(n + ".") for k in y.state_dict()))) if ok]
                    fails.append((dict(base, direction="not_removed", member_kind=got[n]), f"{label}: {got[n]} {n!r} is still present at the root after load ({', '.join(present)}); expected absent: it is {'named in skip' if n in names else 'an instance of a skipped type'}"))
                for n in missing:
                    fails.append((dict(base, direction="survivor_lost", member_kind=want[n]), f"{label}: {want[n]} {n!r} is missing at the root after load although it is not skipped (the unskipped load has it; root members before: {sorted(before)})"))
                continue
            recs = S.diff(ref, y, slack=False, root="root", limit=30)
            nested_known = [r for r in recs if r["path"].startswith("root._modules['hyb']") and r["what"] in ("attr_set", "key_set") and not r.get("missing")]
            other = [r for r in recs if r not in nested_known]
            if nested_known:
                fails.append(({"relation": "skip_reaches_nested_object", "nested_kind": "autoserialize_and_nn_module", "when": when, "what": nested_known[0]["what"], "direction": "not_removed", "root": kind, "by": base["by"]},
                              f"{label}: inside the nested hybrid child root.hyb the skipped members are still present (stored whole by torch.save): {S.fmt(nested_known, 2)[:400]}"))
            for r in other[:3]:
                fails.append((dict(_cls(r, rel, when), root=kind, by=base["by"]), f"{label}: a survivor differs from the unskipped load (expected = unskipped load): {S.fmt([r])}"))
    return fails, points


def enumerate_root_kinds(quick):
    items = []
    kinds = ["hybrid"] + (["attrs"] if S.AttrsRoot is not None else [])
    for kind in kinds:
        for i, ns in enumerate(ROOT_NAME_SETS[kind]):
            for st in (STORES if not quick else [STORES[i % 2]]):
                items.append({"root": kind, "store": st, "names": ns})
        for i, ts in enumerate(ROOT_TYPE_SETS[kind]):
            for st in (STORES if not quick else [STORES[(i + 1) % 2]]):
                items.append({"root": kind, "store": st, "types": ts})
    return items


def eval_root_kind(item, seed=0, scratch="/tmp"):
    t = Tally()
    fails, points = run_root_kind(item, seed, scratch)
    for when, outcome, nontrivial in points:
        t.case(key=["root_kind", item, when], nontrivial=nontrivial, outcome=outcome)
        t.extra["root_kind_points"] += 1
    for cls, msg in fails:
        t.fail(cls, dict(item, family="root_kind", seed=seed), msg)
    if item["root"] == "hybrid" and item.get("names") in (["w"], ["buf"]):
        t.sample({"family": "root_kind", "root": item["root"], "store": item["store"], "names": item.get("names"), "whens": [p[0] for p in points], "observed": "absent through hasattr / named_parameters / named_buffers / named_children / state_dict; survivors equal the unskipped load" if not fails else f"{len(fails)} failure(s)"}, cap=1)
    return t


# ----------------------------------------------------------------------------- spellings of the skip argument
# `skip: str | type | Sequence[str | type]`: one skip list can be spelled in many ways. Every spelling must give
# exactly what the canonical list spelling gives (same surviving attribute set at every level, same values), at
# save time and at load time, through every entry point: AutoSerialize.save / load() and the overrides found in
# the library (a static scan of the source tree lists every class that defines its own save/load; the one that
# handles skip itself, Ptychography.save, is driven on a tiny real reconstruction with a plain nested child hung
# on it; the names that override appends itself must be skipped exactly when save_raw_data=False).
# Spellings inside the signature (list, tuple, bare str, bare type, mixed, duplicates) must work: an exception is
# a failure. Spellings outside it (set, generator) are only counted when the library rejects them.
SPELL_CONFIGS_PLAIN = {
    "one_name": (["a"], []), "names": (["a", "t"], []), "one_type": ([], ["ndarray"]), "types": ([], ["str", "Tensor"]), "mixed": (["p"], ["int"]),
}
SPELL_CONFIGS_PTYCHO = {
    "one_name": (["_snapshots"], []), "names": (["_snapshots", "_iter_losses"], []), "one_type": ([], ["Generator"]), "mixed": (["_snapshots"], ["Generator"]),
}
OUTSIDE_SIGNATURE = ("set", "generator")


def spellings_of(names, types, load_time=False):
    """[(label, factory)]: every spelling applicable to this content. A factory returns a fresh argument (generators!)."""
    def items():
        return list(names) + [type_of(t) for t in types]

    out = [("tuple", lambda: tuple(items())), ("set", lambda: set(items())), ("duplicates", lambda: items() + items())]
    if len(names) + len(types) == 1:
        out.append(("bare_str" if names else "bare_type", lambda: items()[0]))
    if names and types:
        out.append(("types_first", lambda: [type_of(t) for t in types] + list(names)))
    if not types:  # the two-pass normalisation of AutoSerialize consumes an iterator in its first pass: names only
        out.append(("generator", lambda: (x for x in items())))
    return out


def ptycho_child_desc():
    L, C, O = S.L, S.C, S.O
    inner = O("NodeA", ("_snapshots", L("arr:f64:(3,)")), v=L("s"), g=L("rng"))
    return O("Mid", ("_snapshots", C("list", L("i-1"), L("s"))), ("_iter_losses", L("arr:i16:(3,)")), a=L("f0.5"), g=L("rng"), inner=inner)


PTYCHO_CHILD = ptycho_child_desc()


def build_ptycho_with_child(seed):
    p = build_ptycho(seed, 0).ptycho
    p.annotations = S.build(PTYCHO_CHILD, seed)
    return p


def find_save_load_overrides(repo):
    """Static scan: every class under src/quantem that defines its own save / load (no import needed)."""
    import ast
    import os

    found = []
    root = os.path.join(repo, "src", "quantem")
    for dp, _, fns in sorted(os.walk(root)):
        for fn in sorted(fns):
            if not fn.endswith(".py"):
                continue
            path = os.path.join(dp, fn)
            try:
                tree = ast.parse(open(path, encoding="utf-8").read())
            except Exception:
                continue
            for node in ast.walk(tree):
                if isinstance(node, ast.ClassDef):
                    for b in node.body:
                        if isinstance(b, ast.FunctionDef) and b.name in ("save", "load"):
                            args = [a.arg for a in b.args.args + b.args.kwonlyargs]
                            found.append({"where": os.path.relpath(path, root) + ":" + node.name + "." + b.name, "has_skip_parameter": "skip" in args})
    return found


def run_spelling(item, seed, scratch):
    """One (entry point, configuration, when, store[, save_raw_data]): the canonical list spelling against the
    pruned oracle, then every other spelling against the canonical result. Returns (fails, points, rejected)."""
    entry, cfg, when, store = item["entry"], item["config"], item["when"], item["store"]
    raw = item.get("raw", False)
    table = SPELL_CONFIGS_PLAIN if entry == "AutoSerialize.save" else SPELL_CONFIGS_PTYCHO
    names, types = table[cfg]
    tt = tuple(type_of(t) for t in types)
    fails, points, rejected = [], [], 0
    state_restore()
    label = f"{entry} config={cfg} (names={names} types={types}) when={when} store={store}" + (f" save_raw_data={raw}" if entry != "AutoSerialize.save" else "")

    def live():
        return S.build(GRAPH, seed) if entry == "AutoSerialize.save" else build_ptycho_with_child(seed)

    def oracle():
        x = live()
        if entry == "AutoSerialize.save":
            prune(x, set(names), tt)
        else:
            prune_ptycho(x, set(names) | (set() if raw else set(RAW_NAMES)), tt)
        return x

    def do(arg, wd, tag):
        """save + load with the skip argument `arg()` at the requested time. ('ok', y) | (symptom, exc)."""
        p = S.target(wd, store, tag)
        kw = {"skip": arg()} if when == "save" else {}
        try:
            with S.quiet():
                if entry == "AutoSerialize.save":
                    live().save(p, store=store, **kw)
                else:
                    live().save(p, store=store, save_raw_data=raw, **kw)
        except Exception as e:
            return "save_raises", e
        try:
            with S.quiet():
                y = S.q_load(p, skip=arg()) if when == "load" else S.q_load(p)
        except Exception as e:
            return "load_raises", e
        if entry != "AutoSerialize.save" and "_dataset_metadata" in vars(y):
            delattr(y, "_dataset_metadata")  # presence is judged in the history part; content is not claimed
        return "ok", y

    with S.Workdir(scratch, "C14") as wd:
        st, canon = do(lambda: list(names) + list(tt), wd, "canon")
        base_cls = {"relation": "skip_spelling_equals_list", "entry": entry, "when": when}
        if st != "ok":
            fails.append((dict(base_cls, spelling="list", symptom=st, exc=type(canon).__name__), f"{label}: the list spelling itself: {st.replace('_', ' ')} {type(canon).__name__}: {str(canon)[:200]}"))
            return fails, points, rejected
        d = S.diff(oracle(), canon, slack=True, root="obj", limit=8)
        points.append(("list", sorted(vars(canon))))
        if d:
            c = _cls(d[0], "skip_spelling_equals_list", when)
            c.update(entry=entry, spelling="list")
            fails.append((c, f"{label}: the list spelling differs from the in-memory object with those attributes removed: {S.fmt(d)}"))
        for sp, factory in spellings_of(names, types):
            st, y = do(factory, wd, sp)
            if st != "ok":
                if sp in OUTSIDE_SIGNATURE:
                    rejected += 1
                    points.append((sp, [st]))
                    continue
                fails.append((dict(base_cls, spelling=sp, symptom=st, exc=type(y).__name__), f"{label}: spelling {sp}: {st.replace('_', ' ')} {type(y).__name__}: {str(y)[:200]} (the list spelling works)"))
                points.append((sp, [st]))
                continue
            points.append((sp, sorted(vars(y))))
            d = S.diff(canon, y, slack=False, root="obj", limit=8)
            if d:
                c = _cls(d[0], "skip_spelling_equals_list", when)
                c.update(entry=entry, spelling=sp)
                fails.append((c, f"{label}: spelling {sp} gives another object than the list spelling (expected = list spelling): {S.fmt(d)}"))
    return fails, points, rejected


def enumerate_spellings(quick):
    items = []
    for cfg, (names, types) in SPELL_CONFIGS_PLAIN.items():
        for st in STORES:
            items.append({"entry": "AutoSerialize.save", "config": cfg, "when": "save", "store": st})
            if not types:  # load-time skipping is claimed for names
                items.append({"entry": "AutoSerialize.save", "config": cfg, "when": "load", "store": st})
    for cfg, (names, types) in SPELL_CONFIGS_PTYCHO.items():
        combos = [("zip", False), ("dir", True)] if quick else [(st, raw) for st in STORES for raw in (False, True)]
        for st, raw in combos:
            items.append({"entry": "Ptychography.save", "config": cfg, "when": "save", "store": st, "raw": raw})
            if not types and (not quick or not raw):
                items.append({"entry": "Ptychography.save", "config": cfg, "when": "load", "store": st, "raw": raw})
    return items


def eval_spelling(item, seed=0, scratch="/tmp"):
    t = Tally()
    fails, points, rejected = run_spelling(item, seed, scratch)
    for sp, outcome in points:
        t.case(key=["spelling", item, sp], nontrivial=True, outcome=outcome)
        t.extra["spelling_points"] += 1
    t.extra["spellings_outside_the_signature_rejected"] += rejected
    for cls, msg in fails:
        t.fail(cls, dict(item, family="spelling", seed=seed), msg)
    if item["config"] == "one_name" and item["when"] == "save":
        t.sample({"family": "spelling", "entry": item["entry"], "config": item["config"], "when": item["when"], "store": item["store"], "raw": item.get("raw"), "spellings": [p[0] for p in points], "observed": "every spelling equals the list spelling" if not fails else f"{len(fails)} failure(s)"}, cap=1)
    return t


# ----------------------------------------------------------------------------- module-level mutable state
# A save must not depend on earlier saves. What can carry a dependency inside one process is mutable state that
# outlives a call: module-level lists/dicts/sets, class-level ones, and mutable default arguments, in the two
# modules the property is anchored in. They are found by introspection, snapshotted once before anything is
# saved, restored IN PLACE before every work item (so that no case depends on what the worker ran before) and
# compared after every history (a change is a failure class of its own).
STATE_MODULES = ("quantem.core.io.serialize", "quantem.diffractive_imaging.ptychography")
_SNAP = None


def _mutable_slots():
    import importlib
    import inspect

    out = []
    for mn in STATE_MODULES:
        m = importlib.import_module(mn)
        short = mn.rsplit(".", 1)[1]
        for k, v in sorted(vars(m).items()):
            if k.startswith("__"):
                continue
            if isinstance(v, (list, dict, set)):
                out.append((f"{short}.{k}", v))
            if inspect.isclass(v) and v.__module__ == mn:
                for ck, cv in sorted(vars(v).items(), key=lambda kv: kv[0]):
                    f = cv.__func__ if isinstance(cv, (classmethod, staticmethod)) else cv
                    if inspect.isfunction(f):
                        dfl = list(f.__defaults__ or ()) + [x for _, x in sorted((f.__kwdefaults__ or {}).items())]
                        for i, d in enumerate(dfl):
                            if isinstance(d, (list, dict, set)):
                                out.append((f"{short}.{k}.{ck}:default#{i}", d))
                    elif isinstance(cv, (list, dict, set)) and not ck.startswith("__"):
                        out.append((f"{short}.{k}.{ck}", cv))
            elif inspect.isfunction(v) and v.__module__ == mn:
                dfl = list(v.__defaults__ or ()) + [x for _, x in sorted((v.__kwdefaults__ or {}).items())]
                for i, d in enumerate(dfl):
                    if isinstance(d, (list, dict, set)):
                        out.append((f"{short}.{k}:default#{i}", d))
    return out


def _copy1(v):
    return dict(v) if isinstance(v, dict) else set(v) if isinstance(v, set) else list(v)


def _same(a, b):
    if type(a) is not type(b) or len(a) != len(b):
        return False

    def eq(x, y):
        if x is y:
            return True
        try:
            return type(x) is type(y) and bool(x == y)
        except Exception:
            return False

    if isinstance(a, dict):
        return all(k in b and eq(v, b[k]) for k, v in a.items())
    if isinstance(a, set):
        return all(x in b for x in a)
    return all(eq(x, y) for x, y in zip(a, b))


def state_snapshot():
    global _SNAP
    _SNAP = [(label, obj, _copy1(obj)) for label, obj in _mutable_slots()]
    return _SNAP


def state_restore():
    """In place, so that every reference the library holds sees the restored content."""
    if _SNAP is None:
        state_snapshot()
        return
    for _, obj, snap in _SNAP:
        if _same(obj, snap):
            continue
        if isinstance(obj, list):
            obj[:] = snap
        else:
            obj.clear()
            obj.update(snap)


def state_changes():
    return [(label, repr(snap)[:200], repr(obj)[:300]) for label, obj, snap in (_SNAP or []) if not _same(obj, snap)]


# ----------------------------------------------------------------------------- histories of save calls
# Every other part of this check makes one save per case. Here several save calls follow each other in one
# process, on the same object or on different objects, each with its own skip configuration and its own
# target; every target is then loaded and must equal the in-memory graph pruned by THAT call's lists only.
A_CONFIGS = {
    "none": ([], []), "namesA": (["a", "t"], []), "namesB": (["arr", "q"], []), "typesT1": ([], ["ndarray"]),
    "typesT2": ([], ["str", "Tensor"]), "names+types": (["p"], ["int"]),
}
A_LOAD_SKIP = ["lst", "zzz"]
# names are real top-level attributes of a Ptychography object whose absence load()/from_file tolerate
P_CONFIGS = {
    "none": ([], []), "namesA": (["_iter_losses", "_snapshots"], []), "namesB": (["_iter_lrs", "_val_mode"], []),
    "typesT1": ([], ["list"]), "typesT2": ([], ["dict"]), "names+types": (["_val_ratio"], ["bool"]),
}
P_LOAD_SKIP = ["_batch_size"]
P_CFG = {"roi": [8, 8], "scan": [2, 2], "pad": [8, 8]}
RAW_NAMES = ("_dset", "dset")


def build_ptycho(seed, k):
    import numpy as np

    from checks import _ptycho

    with S.quiet():
        P = _ptycho.build(dict(P_CFG), np.random.default_rng([int(seed), 14, int(k)]))
    if P.ptycho is None:
        raise Broken("the tiny ptychography problem could not be built")
    return P


def prune_ptycho(obj, names, types):
    """Oracle for Ptychography objects: nested models and datasets are torch modules, which the serializer
    stores whole (skip lists are not applied inside them), so pruning descends only into nested objects that
    are AutoSerialize and not torch modules."""
    import torch

    removed = 0
    for k in list(vars(obj)):
        v = vars(obj)[k]
        if k in names or (types and isinstance(v, types)):
            delattr(obj, k)
            removed += 1
        elif isinstance(v, S.AutoSerialize) and not isinstance(v, torch.nn.Module):
            removed += prune_ptycho(v, names, types)
    return removed


def _hist_cls(rec, relation, part, call):
    c = _cls(rec, relation, "save")
    c.pop("when", None)
    c["part"] = part
    c["call"] = "first" if call == 0 else "later"
    return c


def run_save_history(item, seed, scratch):
    """One history of save calls. item: part, configs [names of configurations], objects same|different,
    stores [...], raw [...] (ptychography only). Returns (fails, outcomes, nontrivial)."""
    part, cfgs, stores = item["part"], item["configs"], item["stores"]
    table = A_CONFIGS if part == "autoserialize" else P_CONFIGS
    raws = item.get("raw") or [False] * len(cfgs)
    label = f"{part} history " + " ; ".join(
        f"save#{i + 1}(obj{0 if item['objects'] == 'same' else i % 2}, store={stores[i]}, skip names={table[c][0]} types={table[c][1]}" + (f", save_raw_data={raws[i]}" if part == "ptychography" else "") + ")"
        for i, c in enumerate(cfgs)
    )
    fails, outcomes = [], []
    state_restore()
    nobj = 1 if item["objects"] == "same" else 2
    if part == "autoserialize":
        live = [S.build(GRAPH, seed + k) for k in range(nobj)]
    else:
        live = [build_ptycho(seed, k).ptycho for k in range(nobj)]
    removed_any = False
    with S.Workdir(scratch, "C14") as wd:
        targets = []
        for i, c in enumerate(cfgs):
            names, types = table[c]
            k = 0 if nobj == 1 else i % 2
            p = S.target(wd, stores[i], f"h{i}")
            skip = _skip_arg(names, types)
            try:
                with S.quiet():
                    if part == "autoserialize":
                        live[k].save(p, store=stores[i], skip=skip) if skip else live[k].save(p, store=stores[i])
                    else:
                        live[k].save(p, store=stores[i], skip=skip, save_raw_data=raws[i])
            except Exception as e:
                fails.append(({"relation": "history:save_independent_of_earlier_saves", "part": part, "symptom": "save_raises", "exc": type(e).__name__, "call": "first" if i == 0 else "later"}, f"{label}: save#{i + 1} raised {type(e).__name__}: {str(e)[:200]}"))
                return fails, [["save_raises"]], False
            targets.append((i, k, p, names, types, raws[i]))
        # ---- every target is loaded after ALL saves and judged by its own call's lists
        for i, k, p, names, types, raw in targets:
            loads = [("plain load", None, [])]
            if i == len(targets) - 1:
                ls = A_LOAD_SKIP if part == "autoserialize" else P_LOAD_SKIP
                loads.append((f"load(skip={ls})", ls, ls))
            for how, lskip, lnames in loads:
                st, y = _load(p, lskip)
                if st != "ok":
                    fails.append(({"relation": "history:save_independent_of_earlier_saves", "part": part, "symptom": st, "exc": type(y).__name__, "call": "first" if i == 0 else "later"}, f"{label}: {how} of target #{i + 1} raised {type(y).__name__}: {str(y)[:200]}"))
                    continue
                tt = tuple(type_of(t) for t in types)
                if part == "autoserialize":
                    exp = S.build(GRAPH, seed + k)
                    removed_any = prune(exp, set(names) | set(lnames), tt) > 0 or removed_any
                else:
                    exp = build_ptycho(seed, k).ptycho
                    nm = set(names) | set(lnames) | (set() if raw else set(RAW_NAMES))
                    removed_any = prune_ptycho(exp, nm, tt) > 0 or removed_any
                    # the dataset description written next to a save without raw data: present iff not skipped itself
                    want_meta = (not raw) and "_dataset_metadata" not in nm and not (dict in tt)
                    has_meta = "_dataset_metadata" in vars(y)
                    if want_meta != has_meta:
                        fails.append(({"relation": "history:save_independent_of_earlier_saves", "part": part, "what": "attr_set", "kind": "object", "direction": "survivor_lost" if want_meta else "not_removed", "call": "first" if i == 0 else "later", "attr": "_dataset_metadata"}, f"{label}: {how} of target #{i + 1}: _dataset_metadata {'missing' if want_meta else 'present'}"))
                    if has_meta:
                        delattr(y, "_dataset_metadata")
                d = S.diff(exp, y, slack=True, root="obj", limit=8)
                if d:
                    fails.append((_hist_cls(d[0], "history:save_independent_of_earlier_saves", part, i), f"{label}: {how} of target #{i + 1} differs from the in-memory object pruned by the lists of save#{i + 1} only: {S.fmt(d)}"))
                if lskip is None:
                    outcomes.append(sorted(vars(y)))
        # ---- Ptychography.from_file with a dataset handed back, on the last target (name-only / no-skip calls)
        if part == "ptychography" and not table[cfgs[-1]][1]:
            i, k, p, names, types, raw = targets[-1]
            from quantem.diffractive_imaging.ptychography import Ptychography

            try:
                with S.quiet():
                    f = Ptychography.from_file(p, dset=build_ptycho(seed, k).dset)
                got = set(vars(f)) - {"_dataset_metadata"}
                exp = build_ptycho(seed, k).ptycho
                prune_ptycho(exp, set(names) | set(RAW_NAMES), ())
                want = set(vars(exp)) | {"_dset"}
                if got != want:
                    fails.append(({"relation": "history:from_file_attribute_names", "part": part, "what": "attr_set", "kind": "object", "direction": "survivor_lost" if want - got else "not_removed", "call": "later"}, f"{label}: Ptychography.from_file(target #{i + 1}, dset=...) has attributes {sorted(got)}, expected {sorted(want)} (missing {sorted(want - got)}, extra {sorted(got - want)})"))
            except Exception as e:
                fails.append(({"relation": "history:from_file_attribute_names", "part": part, "symptom": "from_file_raises", "exc": type(e).__name__, "call": "later"}, f"{label}: Ptychography.from_file(target #{i + 1}, dset=...) raised {type(e).__name__}: {str(e)[:200]}"))
    # ---- nothing that outlives a call may have changed
    for lab, before, after in state_changes():
        fails.append(({"relation": "history:module_level_state_unchanged", "part": part, "where": lab}, f"{label}: module-level mutable {lab} changed during the history: before {before}, after {after}"))
    state_restore()
    return fails, outcomes, removed_any


def enumerate_save_histories(quick):
    import itertools

    items = []
    n = 2 if quick else 3
    keys = list(A_CONFIGS)
    for cfgs in itertools.product(keys, repeat=n):
        if quick:  # both stores in both positions, on one object and on two
            combos = [("same", ["zip", "dir"]), ("different", ["dir", "zip"])]
        else:
            combos = [(o, [st] * n) for o in ("same", "different") for st in STORES] + [("different", ["zip", "dir", "zip"]), ("same", ["dir", "zip", "dir"])]
        for objects, stores in combos:
            items.append({"part": "autoserialize", "configs": list(cfgs), "objects": objects, "stores": stores})
    pkeys = list(P_CONFIGS)
    for cfgs in itertools.product(pkeys, repeat=2):
        # quick: every ordered pair on one object without raw data; two objects when the first call is namesA / typesT1;
        # the other three save_raw_data combinations for {namesA, typesT1} x {none, namesB}. thorough: the full product.
        sub = cfgs[0] in ("namesA", "typesT1") and cfgs[1] in ("none", "namesB")
        raw_sets = [[False, False]]
        if not quick or sub:
            raw_sets += [[False, True], [True, False], [True, True]]
        for raw in raw_sets:
            items.append({"part": "ptychography", "configs": list(cfgs), "raw": raw, "objects": "same", "stores": ["zip", "dir"]})
            if not quick or (raw == [False, False] and cfgs[0] in ("namesA", "typesT1")):
                items.append({"part": "ptychography", "configs": list(cfgs), "raw": raw, "objects": "different", "stores": ["dir", "zip"]})
    if not quick:  # triples through Ptychography.save for the name configurations, raw data never saved
        for cfgs in itertools.product(("none", "namesA", "namesB", "typesT1"), repeat=3):
            items.append({"part": "ptychography", "configs": list(cfgs), "raw": [False] * 3, "objects": "same", "stores": ["zip", "dir", "zip"]})
    return items


def eval_save_history(item, seed=0, scratch="/tmp"):
    t = Tally()
    fails, outcomes, nontrivial = run_save_history(item, seed, scratch)
    t.case(key=["save_history", item], nontrivial=nontrivial, outcome=outcomes)
    t.extra["save_histories_" + item["part"]] += 1
    t.extra["save_history_saves"] += len(item["configs"])
    for cls, msg in fails:
        t.fail(cls, dict(item, family="save_history", seed=seed), msg)
    if item["configs"][0] != "none" and item["configs"][-1] == "none":
        t.sample({"family": "save_history", "part": item["part"], "configs": item["configs"], "objects": item["objects"], "stores": item["stores"], "raw": item.get("raw"), "observed": "every target equals the object pruned by its own call's lists; module-level state unchanged" if not fails else f"{len(fails)} failure(s)"}, cap=1)
    return t


# ----------------------------------------------------------------------------- every way of being an instance of a listed type
# "removes every attribute that is an instance of a listed type": in Python that relation is `isinstance`, which holds
# through the concrete class, through a base class, through an abstract base class with virtual subclasses (register(),
# __subclasshook__), through a runtime-checkable Protocol, through a metaclass __instancecheck__, and trivially for
# `object`. The type-list alphabet below has one member (or more) of every such way; the graph has an attribute of every
# value kind of the leaf alphabet at the root and at nested levels. Oracle: prune() above, i.e. an attribute is absent
# after load iff isinstance(original value, listed types); every other attribute equals the in-memory one.
INSTANCE_WAYS = {
    "concrete class": ["int", "float", "complex", "str", "bytes", "dict", "tuple", "ndarray", "Tensor", "Mid", "np.int64"],
    "base class": ["Parameter", "Module", "np.generic", "np.integer", "np.floating", "np.number", "PurePath", "AutoSerialize"],
    "abstract base class with virtual subclasses": [
        "numbers.Number", "numbers.Complex", "numbers.Real", "numbers.Integral", "abc.Mapping", "abc.MutableMapping", "abc.Sequence",
        "abc.MutableSequence", "abc.Set", "abc.Sized", "abc.Iterable", "abc.Container", "abc.Collection", "abc.Reversible", "abc.Hashable",
        "abc.Callable", "os.PathLike",
    ],
    "user ABC with register()": ["RegisteredKind", "RegisteredTensorKind"],
    "__subclasshook__": ["HasShapeHook"],
    "runtime-checkable Protocol": ["HasItemsProtocol", "typing.SupportsFloat", "typing.SupportsIndex"],
    "metaclass __instancecheck__": ["NamedInstanceCheck"],
    "object": ["object"],
}
INSTANCE_TYPES = [t for ts in INSTANCE_WAYS.values() for t in ts]
# pairs: all 2-subsets of one representative per way (+ the seed-independent classic int/bool base case)
INSTANCE_PAIR_POOL = ["str", "Parameter", "numbers.Integral", "numbers.Real", "abc.Mapping", "abc.Sequence", "RegisteredKind", "HasShapeHook", "HasItemsProtocol", "NamedInstanceCheck"]
# hybrid root (registered parameters / buffers / sub-modules are filtered by a second isinstance site): only types
# that match no internal bookkeeping attribute of torch.nn.Module (dicts, sets, bools, None)
INSTANCE_TYPES_HYBRID_ROOT = [ts[0] for ts in ROOT_TYPE_SETS["hybrid"][6:]]
# spellings outside `str | type | Sequence[str | type]`: a tuple nested in the list, a PEP 604 union, a typing alias
INSTANCE_NESTED_SPELLINGS = ["nested_tuple_in_list", "nested_tuple_in_tuple", "doubly_nested_tuple", "union_type", "typing_alias"]


def _instance_type(name, concrete=True):
    import collections.abc
    import numbers
    import os
    import pathlib
    import typing

    import numpy as np

    if name.startswith("abc."):
        return getattr(collections.abc, name[4:])
    if name.startswith("numbers."):
        return getattr(numbers, name[8:])
    if name.startswith("typing."):
        return getattr(typing, name[7:])
    if name.startswith("np."):
        return getattr(np, name[3:])
    if name in ("RegisteredKind", "RegisteredTensorKind", "HasShapeHook", "HasItemsProtocol", "NamedInstanceCheck", "AutoSerialize"):
        return getattr(S, name)
    if name == "os.PathLike":
        return os.PathLike
    if name == "PurePath":
        return pathlib.PurePath
    if name in ("complex", "bytes", "tuple", "set", "object"):
        return {"complex": complex, "bytes": bytes, "tuple": tuple, "set": set, "object": object}[name]
    if not concrete:
        raise KeyError(name)
    return type_of(name)


def instance_graph_desc():
    L, C, D, O = S.L, S.C, S.D, S.O
    inner = O(
        "PlainLeafNode", n=L("i-1"), on=L("false"), x=L("np_f64"), z=L("complex"), tag=L("s"), table=D(("a", L("i0")), ("n", L("s"))), data=L("arr:f64:(3,)"),
        tup=C("tuple", L("i0"), L("s")), w=L("t_param"), nb=L("np_bool"), nothing=L("none"), p=L("path_abs"), od=L("cs:OrderedDict"),
    )
    mid = O(
        "Mid", k=L("np_i8"), on=L("true"), x=L("f0.5"), name=L("s_empty"), table=D(("k", L("f1.5"))), seq=C("list", L("i-1"), L("s")),
        arr=L("arr:u8:(3,)"), t=L("t_f32_grad"), fz=L("frozenset"), inner=inner, lin=L("linear"), nt=L("cs:namedtuple_numeric"),
    )
    return O(
        "Top", n=L("i2^40"), on=L("true"), x=L("f1.5"), z=L("complex"), name=L("s_unicode"), by=L("bytes"), nothing=L("none"), p=L("path_rel"),
        npi=L("np_i64"), npf=L("np_f32"), npb=L("np_bool"), npc=L("np_c128"), arr=L("arr:i16:(2, 3)"), arr0=L("arr:f64:()"), t=L("t_f64"), t0=L("t_0d"),
        w=L("t_param"), lin=L("linear"), seq=C("list", L("i0"), L("s"), L("arr:i16:(3,)")), tup=C("tuple", L("path_rel"), L("f1.5")),
        table=D(("n", L("i0")), ("arr", L("arr:u8:(3,)"))), st=C("set", L("s"), L("s_empty")), rg=L("range"), rng=L("rng"), ul=L("cs:list_subclass"),
        mid=mid,
    )


INSTANCE_GRAPH = instance_graph_desc()


def _nested_spelling(form, tt):
    import typing

    if form == "nested_tuple_in_list":
        return [tuple(tt)]
    if form == "nested_tuple_in_tuple":
        return (tuple(tt),)
    if form == "doubly_nested_tuple":
        return [(tt[0], tuple(tt[1:]))]
    if form == "union_type":
        u = tt[0]
        for t in tt[1:]:
            u = u | t
        return [u]
    if form == "typing_alias":
        return [typing.Mapping, typing.Sequence]
    raise ValueError(form)


def run_instance(case, seed, scratch):
    """{"types": [names], "store": s, "graph": "plain"} -> skip=[types] at save time on INSTANCE_GRAPH, plain load;
    {"form": nested spelling, ...}: a spelling outside the signature, see below. Returns (fails, outcome, nontrivial, info)."""
    import os

    types, store = case["types"], case["store"]
    tt = tuple(_instance_type(t) for t in types)
    form = case.get("form")
    fails = []
    state_restore()
    exp = S.build(INSTANCE_GRAPH, seed)
    removed = prune(exp, set(), tt)
    label = f"instance-relation graph store={store} save(skip=" + (f"{form} of " if form else "") + f"[{', '.join(types)}])"
    base = {"relation": "skip_types_isinstance", "when": "save"}
    with S.Workdir(scratch, "C14") as wd:
        p = S.target(wd, store, "i")
        if form is None:
            st, y = S.save_load(S.build(INSTANCE_GRAPH, seed), wd, store, name="i", save_kw={"skip": list(tt)})
            if st != "ok":
                fails.append((dict(base, symptom=st, exc=type(y).__name__), f"{label}: {st.replace('_', ' ')} {type(y).__name__}: {str(y)[:200]} (expected: the graph without the instances of these types)"))
                return fails, [st], removed > 0, {}
            d = S.diff(exp, y, slack=True, root="top")
            if d:
                r = d[0]
                c = _cls(r, "skip_types_isinstance", "save")
                how = ""
                if r.get("extra") and not r.get("missing"):  # which way of being an instance was not honoured
                    src = S.build(INSTANCE_GRAPH, seed)
                    how = "; isinstance(original value, listed) is True for " + ", ".join(f"{n} ({type(v).__name__})" for n, v in _walk_attrs(src, r["path"], r["extra"]))
                fails.append((c, f"{label}: loaded object differs from the in-memory graph without the instances of the listed types: {S.fmt(d)}{how}"))
            return fails, S.summary(y), removed > 0, {}
        # ---- spellings outside the signature: either refused (an exception, nothing written) or given isinstance
        # semantics (what isinstance itself does with nested tuples / unions), or not a type list at all (ignored as a
        # whole, like any other non-str non-type element). Anything in between is a failure.
        arg = _nested_spelling(form, tt)
        if form == "typing_alias":
            import collections.abc

            tt = (collections.abc.Mapping, collections.abc.Sequence)
            exp = S.build(INSTANCE_GRAPH, seed)
            removed = prune(exp, set(), tt)
        st = _save(S.build(INSTANCE_GRAPH, seed), p, store, arg)
        if st[0] != "ok":
            if os.path.exists(p):
                fails.append((dict(base, symptom="refused_spelling_wrote_something", spelling=form), f"{label}: save raised {type(st[1]).__name__} but left something at the target"))
            return fails, ["refused"], False, {"nested_spelling": "refused"}
        st, y = _load(p, None)
        if st != "ok":
            fails.append((dict(base, symptom=st, exc=type(y).__name__, spelling=form), f"{label}: the save succeeded, the plain load raised {type(y).__name__}: {str(y)[:200]}"))
            return fails, [st], False, {}
        d_sem = S.diff(exp, y, slack=True, root="top")
        if not d_sem:
            return fails, S.summary(y), removed > 0, {"nested_spelling": "isinstance_semantics"}
        d_ign = S.diff(S.build(INSTANCE_GRAPH, seed), y, slack=True, root="top")
        if not d_ign:
            return fails, S.summary(y), False, {"nested_spelling": "ignored_as_a_whole"}
        c = _cls(d_sem[0], "skip_types_isinstance", "save")
        c["spelling"] = form
        fails.append((c, f"{label}: neither refused, nor isinstance semantics ({S.fmt(d_sem, 2)}), nor ignored as a whole ({S.fmt(d_ign, 2)})"))
    return fails, S.summary(y), removed > 0, {}


def _walk_attrs(obj, path, names):
    """(name, value) of the attributes `names` of the object at `path` ('top.mid.inner')."""
    for step in path.split(".")[1:]:
        obj = getattr(obj, step, obj)
    return [(n, getattr(obj, n)) for n in names if hasattr(obj, n)]


def instance_matches(seed):
    """{type name: number of attributes of the graph (all levels, before pruning) that are instances}: the measured
    reach of every alphabet member, for the coverage record and the vacuity guard."""
    out = {}
    for t in INSTANCE_TYPES:
        x = S.build(INSTANCE_GRAPH, seed)
        out[t] = prune(x, set(), (_instance_type(t),))
    return out


def instance_matches_not_in_mro(seed):
    """{type name: attributes that are instances although the listed type is not in type(value).__mro__}."""
    out = {}

    def walk(o, T):
        n = 0
        for v in vars(o).values():
            if isinstance(v, T):
                n += int(T not in type(v).__mro__)
            elif isinstance(v, S.AutoSerialize):
                n += walk(v, T)
        return n

    for t in INSTANCE_TYPES:
        out[t] = walk(S.build(INSTANCE_GRAPH, seed), _instance_type(t))
    return out


def enumerate_instance(quick):
    first = {ts[0] for ts in INSTANCE_WAYS.values()} | {"numbers.Integral", "abc.Mapping"}
    items = []
    for i, t in enumerate(INSTANCE_TYPES):  # quick: both stores for one member of every way, alternating stores for the others
        for st in (STORES if (not quick or t in first) else [STORES[i % 2]]):
            items.append({"types": [t], "store": st})
    for i, pr in enumerate(itertools.combinations(INSTANCE_PAIR_POOL, 2)):
        for st in ([STORES[i % 2]] if quick else STORES):
            items.append({"types": list(pr), "store": st})
    for i, form in enumerate(INSTANCE_NESTED_SPELLINGS):
        for st in ([STORES[i % 2]] if quick else STORES):
            items.append({"types": ["numbers.Integral", "abc.Mapping", "str"], "store": st, "form": form})
    return items


def eval_instance(item, seed=0, scratch="/tmp"):
    t = Tally()
    case = dict(item, family="instance", seed=seed)
    f, outcome, nontrivial, info = run_instance(case, seed, scratch)
    t.case(key=["instance", item["types"], item["store"], item.get("form")], nontrivial=nontrivial, outcome=outcome)
    t.extra["instance_points"] += 1
    if info.get("nested_spelling"):
        t.extra["instance_nested_spelling_" + info["nested_spelling"]] += 1
    for cls, msg in f:
        t.fail(cls, case, msg)
    if item["types"] == ["numbers.Integral", "abc.Mapping"]:
        t.sample({"family": "instance", "types": item["types"], "store": item["store"], "observed": "equal to the in-memory graph without the instances (isinstance) of these types" if not f else f"{len(f)} failure(s)"}, cap=1)
    return t


# ----------------------------------------------------------------------------- driver
def subsets(u):
    out = []
    for r in range(len(u) + 1):
        for c in itertools.combinations(u, r):
            out.append(list(c))
    return out


def run(ctx):
    ctx.assume(
        "nested AutoSerialize objects are reached through attributes only (objects inside containers are outside the quantifier)",
        "type lists are given at save time only; they are recorded in the file and re-applied by load()",
        "dict keys and container elements are not attributes: a key equal to a skipped name must survive",
        "survivors are compared with the C01 relation (NumPy scalars / all-numeric sequences by numeric value against the input; exactly between two loaded graphs)",
    )

    import importlib

    for mn in STATE_MODULES:
        importlib.import_module(mn)
    slots = [lab for lab, _, _ in state_snapshot()]  # before anything is saved; worker processes inherit it

    def once():
        f, pts = run_subset({"subset": ["a", "inner", "zzz"], "store": "zip"}, ctx.seed, ctx.scratch)
        f2, o2, _ = run_types({"types": ["int", "Tensor"], "store": "dir"}, ctx.seed, ctx.scratch)
        # reproducible = the built input and the verdict; loaded bytes of a faulty serializer may differ between runs
        key = lambda c: repr(sorted(c.items(), key=repr))  # noqa: E731
        return (S.summary(S.build(GRAPH, ctx.seed)), [p[0]["when"] for p in pts], sorted(key(c) for c, _, _ in f), sorted(key(c) for c, _ in f2))

    ctx.selftest(once)
    # vacuity of the oracle itself: pruning must see names at one, several and no depth
    removed = {n: expected(ctx.seed, [n], ())[1] for n in UNIVERSE}
    if sorted(removed.values()) != [0, 1, 1, 1, 2, 2, 3]:
        raise Broken(f"name universe no longer has names at 0/1/2/3 depths: {removed}")
    subs = subsets(UNIVERSE)
    items = [{"subset": s, "store": st} for s in subs for st in STORES]
    # the bare-str / tuple forms of the lattice run in the thorough tier only: the spelling family below covers them in both
    m1 = ctx.pmap(eval_subset, items, chunk=2, label="name subsets", seed=ctx.seed, scratch=ctx.scratch, forms=not ctx.quick)
    npairs = 0
    if not ctx.quick:
        # every assignment of each name to {nowhere, save, load}: all disjoint (save, load) pairs not yet covered above
        pairs = []
        for assign in itertools.product((0, 1, 2), repeat=len(UNIVERSE)):
            sv = [n for n, a in zip(UNIVERSE, assign) if a == 1]
            ld = [n for n, a in zip(UNIVERSE, assign) if a == 2]
            if not sv or not ld:
                continue  # save-only / load-only are in the subset family
            for st in STORES:
                pairs.append({"when": "split", "save": sv, "load": ld, "store": st})
        npairs = len(pairs)
        ctx.pmap(eval_pair, pairs, label="disjoint save/load pairs", seed=ctx.seed, scratch=ctx.scratch)
    titems = []
    tsubs = [list(c) for r in (0, 1, 2) for c in itertools.combinations(TYPE_NAMES, r)]
    for ts in tsubs:
        for st in STORES:
            titems.append({"types": ts, "store": st})
    for tn in TYPE_NAMES:
        for n in UNIVERSE:
            for nw in ("save", "load"):
                for st in STORES:
                    titems.append({"types": [tn], "name": n, "name_when": nw, "store": st})
    m2 = ctx.pmap(eval_types, titems, chunk=4, label="type lists", seed=ctx.seed, scratch=ctx.scratch)
    yitems = [{"names": n, "when": w, "store": st} for n in HYBRID_NAME_SETS for w in ("save", "load", "both") for st in STORES]
    m4 = ctx.pmap(eval_hybrid, yitems, chunk=1, label="hybrid nested object", seed=ctx.seed, scratch=ctx.scratch)
    ritems = enumerate_root_kinds(ctx.quick)
    m6 = ctx.pmap(eval_root_kind, ritems, chunk=1, label="root kinds", seed=ctx.seed, scratch=ctx.scratch)
    if S.AttrsRoot is None:
        ctx.seam_missing.append("the attrs package is not importable: the attrs-style root is not exercised")
    iitems = enumerate_instance(ctx.quick)
    m8 = ctx.pmap(eval_instance, iitems, chunk=2, label="instance relations", seed=ctx.seed, scratch=ctx.scratch)
    reach, virtual = instance_matches(ctx.seed), instance_matches_not_in_mro(ctx.seed)
    if min(reach.values()) < 1:
        raise Broken(f"instance-relation alphabet has a member that matches no attribute of the graph: {reach}")
    for way, ts in INSTANCE_WAYS.items():
        if way not in ("concrete class", "base class", "object") and any(virtual[t] < 1 for t in ts):
            raise Broken(f"instance-relation alphabet: a member of '{way}' matches nothing outside the MRO: { {t: virtual[t] for t in ts} }")
    litems = [{"scenario": sc} for sc in RELOAD_SCENARIOS]
    m7 = ctx.pmap(eval_reload, litems, chunk=1, label="module reload", seed=ctx.seed, scratch=ctx.scratch)
    pitems = enumerate_spellings(ctx.quick)
    m5 = ctx.pmap(eval_spelling, pitems, chunk=1, label="skip spellings", seed=ctx.seed, scratch=ctx.scratch)
    overrides = find_save_load_overrides(ctx.repo)
    undriven = [o["where"] for o in overrides if o["has_skip_parameter"] and not o["where"].endswith(("serialize.py:AutoSerialize.save", "ptychography.py:Ptychography.save"))]
    hitems = enumerate_save_histories(ctx.quick)
    m3 = ctx.pmap(eval_save_history, hitems, chunk=2, label="save histories", seed=ctx.seed, scratch=ctx.scratch)
    ctx.coverage.update(
        alphabet={
            "name_universe": UNIVERSE, "depths_at_which_each_name_occurs": removed, "types": TYPE_NAMES, "stores": list(STORES),
            "when": ["save", "load", "both", "split"] + ([] if ctx.quick else ["every disjoint (save, load) pair"]), "skip_forms": ["list", "bare str", "tuple"],
            "graph": S.show(GRAPH),
        },
        bounds={"name_subsets": len(subs), "type_subsets_max_size": 2, "type_subsets": len(tsubs), "name_x_type_pairs": len(TYPE_NAMES) * len(UNIVERSE) * 2, "disjoint_pairs": npairs},
        relations=["skip_names (when=save: the recorded list is honoured by a plain load)", "load_time_equals_save_time", "skip_types",
                   "skip_types_isinstance (absent iff isinstance(original value, listed types))", "history:save_independent_of_earlier_saves", "history:from_file_attribute_names", "history:module_level_state_unchanged"],
        root_kinds={
            "roots": ["plain (the lattice)", "hybrid AutoSerialize + torch.nn.Module"] + (["attrs-style"] if S.AttrsRoot is not None else []),
            "name_sets": ROOT_NAME_SETS, "type_sets_at_save": ROOT_TYPE_SETS, "when": ["save", "load", "both"], "items": len(ritems), "points": int(m6.extra["root_kind_points"]),
            "hybrid_root_members": {k: v for k, v in sorted(root_members(build_root("hybrid", ctx.seed)).items())},
        },
        module_reload={"scenarios": RELOAD_SCENARIOS, "name_sets": RELOAD_NAME_SETS, "type_sets_at_save": RELOAD_TYPE_SETS, "points": int(m7.extra["reload_points"]),
                       "unskipped_roundtrips": int(m7.extra["reload_roundtrips_without_skip"]), "unskipped_roundtrips_not_supported": int(m7.extra["reload_roundtrips_without_skip_not_supported"])},
        skip_spellings={
            "entry_points_driven": ["AutoSerialize.save / load()", "Ptychography.save / load()"], "save_load_overrides_found_in_source": overrides,
            "overrides_with_a_skip_parameter_not_driven": undriven,
            "configurations": {"AutoSerialize.save": {k: {"names": v[0], "types": v[1]} for k, v in SPELL_CONFIGS_PLAIN.items()},
                               "Ptychography.save": {k: {"names": v[0], "types": v[1]} for k, v in SPELL_CONFIGS_PTYCHO.items()}},
            "spellings": ["list (canonical)", "tuple", "set", "duplicates", "bare_str", "bare_type", "types_first", "generator (names only)"],
            "ptychography_child": S.show(PTYCHO_CHILD), "items": len(pitems), "points": int(m5.extra["spelling_points"]),
            "spellings_outside_the_signature_rejected": int(m5.extra["spellings_outside_the_signature_rejected"]),
        },
        instance_relations={
            "ways_of_being_an_instance": INSTANCE_WAYS, "graph": S.show(INSTANCE_GRAPH), "stores": list(STORES) if not ctx.quick else "both for one member of every way, alternating for the others and for pairs",
            "attributes_matched_per_type": reach, "of_which_not_through_the_mro": virtual, "pair_pool": INSTANCE_PAIR_POOL,
            "pairs": len(list(itertools.combinations(INSTANCE_PAIR_POOL, 2))), "hybrid_root_types": INSTANCE_TYPES_HYBRID_ROOT,
            "spellings_outside_the_signature": INSTANCE_NESTED_SPELLINGS,
            "spellings_outside_the_signature_outcomes": {k[len("instance_nested_spelling_"):]: int(v) for k, v in m8.extra.items() if k.startswith("instance_nested_spelling_")},
            "items": len(iitems), "points": int(m8.extra["instance_points"]),
        },
        hybrid_nested_object={
            "graph": S.show(HYBRID_GRAPH), "name_sets": HYBRID_NAME_SETS, "when": ["save", "load", "both"], "points": int(m4.extra["hybrid_points"]),
            "points_showing_the_known_defect": int(m4.extra["hybrid_points_showing_the_known_defect"]),
        },
        save_histories={
            "length": 2 if ctx.quick else 3, "autoserialize_configurations": {k: {"names": v[0], "types": v[1]} for k, v in A_CONFIGS.items()},
            "ptychography_configurations": {k: {"names": v[0], "types": v[1]} for k, v in P_CONFIGS.items()}, "ptychography_problem": P_CFG,
            "histories": len(hitems), "autoserialize": int(m3.extra["save_histories_autoserialize"]), "ptychography": int(m3.extra["save_histories_ptychography"]),
            "saves": int(m3.extra["save_history_saves"]), "module_level_mutables_watched": slots,
        },
        exhaustive=True,
    )
    if int(m1.extra["name_points"]) < len(items) * 3 or int(m2.extra["type_points"]) != len(titems):
        raise Broken(f"enumeration incomplete: {m1.extra['name_points']} name points, {m2.extra['type_points']} type points")
    if int(m3.extra["save_histories_autoserialize"]) + int(m3.extra["save_histories_ptychography"]) != len(hitems) or len(m3.outcomes) < 10:
        raise Broken(f"save-history enumeration degenerate: {dict(m3.extra)}, {len(m3.outcomes)} outcomes for {len(hitems)} histories")
    if int(m8.extra["instance_points"]) != len(iitems) or len(m8.outcomes) < len(INSTANCE_WAYS):
        raise Broken(f"instance-relation family degenerate: {m8.extra['instance_points']} points for {len(iitems)} items, {len(m8.outcomes)} outcomes")
    if int(m6.extra["root_kind_points"]) < len(ritems):
        raise Broken(f"root-kind family degenerate: {m6.extra['root_kind_points']} points for {len(ritems)} items")
    if undriven:
        ctx.seam_missing.append(f"save/load overrides with a skip parameter that this check does not drive: {undriven}")
    if int(m5.extra["spelling_points"]) < 3 * len(pitems):
        raise Broken(f"spelling family degenerate: {m5.extra['spelling_points']} points for {len(pitems)} items")
    if int(m4.extra["hybrid_points"]) != len(yitems):
        raise Broken(f"hybrid family incomplete: {m4.extra['hybrid_points']} of {len(yitems)} points")
    if not any("default#" in x for x in slots):
        ctx.seam_missing.append("no mutable default argument found in the watched modules (introspection of function defaults)")
    if len(m1.outcomes) < 20 or len(m2.outcomes) < 10:
        raise Broken(f"too few distinct outcomes: names {len(m1.outcomes)}, types {len(m2.outcomes)}")


def replay(ctx, case):
    seed = case.get("seed", ctx.seed)
    if case["family"] != "instance":
        print(f"  graph: {S.show(GRAPH)}")
    if case["family"] == "reload":
        rec, err = run_reload(case, seed, ctx.scratch)
        if rec is None:
            raise Broken(f"reload subprocess produced no result: {err}")
        print(f"  scenario {case['scenario']}: unskipped round trip {rec['roundtrip']}")
        for r in rec["results"]:
            print(f"  store={r['store']} when={r['when']} names={r['names']} types={r['types']}: {r['status']} {r['detail'] or ''}")
            if r["status"] != "ok":
                ctx.fail({"relation": "skip_across_module_reload", "scenario": case["scenario"], "when": r["when"], "by": "type" if r["types"] else "name", "symptom": r["status"]}, case, str(r["detail"]))
        return
    if case["family"] == "instance":
        import importlib

        for mn in STATE_MODULES:
            importlib.import_module(mn)
        state_snapshot()
        f, outcome, _, info = run_instance(case, seed, ctx.scratch)
        for cls, msg in f:
            ctx.fail(cls, case, msg)
        tt = tuple(_instance_type(t) for t in case["types"])
        exp = S.build(INSTANCE_GRAPH, seed)
        n = prune(exp, set(), tt)
        print(f"  graph: {S.show(INSTANCE_GRAPH)}")
        print(f"  save(skip={'[' + ', '.join(case['types']) + ']'}{' spelled as ' + case['form'] if case.get('form') else ''}) store={case['store']}; isinstance holds for {n} attribute(s)")
        print(f"  expected: {str(S.summary(exp))[:600]}")
        print(f"  observed: {str(outcome)[:600]} {info or ''}")
        return
    if case["family"] == "root_kind":
        import importlib

        for mn in STATE_MODULES:
            importlib.import_module(mn)
        state_snapshot()
        fails, points = run_root_kind(case, seed, ctx.scratch)
        for cls, msg in fails:
            ctx.fail(cls, case, msg)
        print(f"  root={case['root']} store={case['store']} names={case.get('names')} types={case.get('types')}")
        print(f"  members of the built root: {sorted(root_members(build_root(case['root'], seed)).items())}")
        for when, outcome, _ in points:
            print(f"  when={when}: members after load {outcome}")
        print(f"  expected: the skipped members absent through the attribute protocol, survivors equal to the unskipped load; observed: {len(fails)} failure(s)")
        return
    if case["family"] == "spelling":
        import importlib

        for mn in STATE_MODULES:
            importlib.import_module(mn)
        state_snapshot()
        fails, points, rejected = run_spelling(case, seed, ctx.scratch)
        for cls, msg in fails:
            ctx.fail(cls, case, msg)
        print(f"  entry={case['entry']} config={case['config']} when={case['when']} store={case['store']} raw={case.get('raw')}")
        for sp, outcome in points:
            print(f"  spelling {sp:12s}: top-level attributes {outcome}")
        print(f"  expected: every spelling gives the object of the list spelling; observed: {len(fails)} failure(s), {rejected} spelling(s) outside the signature rejected")
        return
    if case["family"] == "hybrid":
        import importlib

        for mn in STATE_MODULES:
            importlib.import_module(mn)
        state_snapshot()
        f, outcome, _ = run_hybrid(case, seed, ctx.scratch)
        for cls, msg in f:
            ctx.fail(cls, case, msg)
        exp = S.build(HYBRID_GRAPH, seed)
        prune(exp, set(case["names"]), ())
        print(f"  graph: {S.show(HYBRID_GRAPH)}  skip names={case['names']} when={case['when']} store={case['store']}")
        print(f"  expected attributes of top.hyb: {sorted(k for k in vars(exp.hyb) if not k.startswith('_'))}")
        print(f"  observed: {str(outcome)[:500]}")
        return
    if case["family"] == "save_history":
        import importlib

        for mn in STATE_MODULES:
            importlib.import_module(mn)
        state_snapshot()
        fails, outcomes, _ = run_save_history(case, seed, ctx.scratch)
        for cls, msg in fails:
            ctx.fail(cls, case, msg)
        print(f"  history: {case['part']} configs={case['configs']} objects={case['objects']} stores={case['stores']} raw={case.get('raw')}")
        print(f"  attribute names of the plain loads, per target: {outcomes}")
        print(f"  expected: every target equals the object pruned by its own call's lists, module-level state unchanged; observed: {len(fails)} failure(s)")
        return
    if case["family"] == "names":
        f, outcome, _, got = run_names(case, seed, ctx.scratch)
        fails = [(c, m) for c, m in f]
        if case.get("compare_with_save_time") and got is not None:
            c2 = dict(case, when="save", save=case["load"], load=[])
            _, _, _, ref = run_names(c2, seed, ctx.scratch)
            if ref is not None:
                d = S.diff(ref, got, slack=False, root="top")
                if d:
                    fails.append((_cls(d[0], "load_time_equals_save_time", "load"), f"load-time result differs from save-time result: {S.fmt(d)}"))
        exp, _ = expected(seed, sorted(set(case["save"]) | set(case["load"])), ())
    else:
        f, outcome, _ = run_types(case, seed, ctx.scratch)
        fails = list(f)
        exp, _ = expected(seed, [case["name"]] if case.get("name") else [], case["types"])
    for cls, msg in fails:
        ctx.fail(cls, case, msg)
    print(f"  expected: {str(S.summary(exp))[:600]}")
    print(f"  observed: {str(outcome)[:600]}")
