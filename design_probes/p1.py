import numpy as np, torch, tempfile, os, warnings, traceback
from pathlib import Path
from quantem.core.io.serialize import AutoSerialize, load
class A(AutoSerialize):
    pass
def rt(val, store="zip"):
    a=A(); a.x=val
    d=tempfile.mkdtemp()
    p=os.path.join(d,"o.zip" if store=="zip" else "o")
    a.save(p, store=store)
    b=load(p)
    return b.__dict__.get("x","<MISSING>")
cases = {
 "0d": np.array(3.5), "0d_int": np.array(7), "empty(0,3)": np.zeros((0,3),dtype=np.int16), "npfloat32": np.float32(1.5),
 "None": None, "set_str": {"a","b"}, "set_int": {1,2,3}, "set_mixed": {1,"a"}, "path": Path("/a/b"), "list_dict":[{"a":1},{"b":[1,2]}],
 "tuple_nested": (1,(2,3),"x"), "nan": float("nan"), "inf": float("inf"), "complex": 1+2j, "bool": True, "emptylist": [], "emptydict": {}, "emptyset": set(), "emptytuple": (),
 "list_of_none":[None,None], "bigint": 2**70, "list_bigint":[2**62, 1], "arr_bool": np.array([True,False]), "arr_c64": np.arange(4,dtype=np.complex64).reshape(2,2),
 "arr_u8": np.arange(5,dtype=np.uint8), "arr_f16": np.arange(3,dtype=np.float16), "arr_str": np.array(["a","bc"]), "bytes": b"abc", "list_arr":[np.arange(3), np.zeros((2,2))],
 "dict_arr":{"k":np.arange(3)}, "tensor": torch.arange(3.0, requires_grad=True), "tensor_c": torch.zeros(2,dtype=torch.complex64), "list_tensor":[torch.ones(2)],
 "list_np_scalars":[np.float32(1), np.int8(2)], "list_mixed_numeric":[1,2.5,True], "tuple_path":(Path("a"),"b"), "dict_int_keys":{1:"a"}, "str_empty":"", "list_str":["a","b"],
 "nested_empty":[[],[]], "list_set":[{1,2}], "0d_empty_str": "",
}
for k,v in cases.items():
    for store in ("zip","dir"):
        try:
            with warnings.catch_warnings():
                warnings.simplefilter("ignore")
                r=rt(v,store)
            print(f"{k:20s} {store}: in={v!r:40.40} out={r!r:60.60} type={type(r).__name__}" + (f" dtype={r.dtype} shape={r.shape}" if isinstance(r,np.ndarray) else ""))
        except Exception as e:
            print(f"{k:20s} {store}: EXC {type(e).__name__}: {str(e)[:100]}")
