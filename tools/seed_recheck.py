#!/venv/bin/python
"""Regression over ALL filed seeded changes: every /verif/seeded/<id>/patch.diff is applied to a fresh scratch worktree
of /repo (HEAD, or the `base` recorded in meta.json when a later fix rewrote the lines it touches; if the patch no longer
applies to HEAD the recorded/previous base is tried) and the property's CURRENT quick check is run against it
(VERIF_REPO, --no-evidence). Expected exit 1 — exit 0 for entries marked not_a_violation. Writes seeded/RECHECK.md and
exits 1 if an expectation is not met.

    seed_recheck.py [--jobs N] [ID-prefix ...]
"""
import concurrent.futures as cf
import glob
import json
import os
import subprocess
import sys

PY = "/venv/bin/python"
VERIF = os.path.dirname(os.path.dirname(os.path.abspath(__file__)))


def sh(cmd, env=None, timeout=7200):
    e = dict(os.environ)
    if env:
        e.update(env)
    p = subprocess.run(cmd, shell=True, env=e, capture_output=True, text=True, timeout=timeout)
    return p.returncode, p.stdout + p.stderr


def one(d):
    m = json.load(open(os.path.join(d, "meta.json")))
    sid, prop = m["id"], m["property"]
    patch = os.path.join(d, "patch.diff")
    head = sh("git -C /repo rev-parse --short HEAD")[1].strip()
    bases = ["HEAD"]
    if m.get("base") and m["base"] != head:
        bases.append(m["base"])
    # a later fix: commit may have rewritten lines the patch touches: fall back to the parent of each fix, newest first
    kf = json.load(open(os.path.join(VERIF, "known_findings.json")))["findings"]
    bases += [f"{f['commit']}~1" for f in reversed(kf) if f.get("status") == "fixed" and f.get("commit")]
    for base in bases:
        wt = f"/tmp/sr-{sid}-{os.getpid()}"
        rc, o = sh(f"git -C /repo worktree add --detach {wt} {base} -q")
        if rc != 0:
            return sid, prop, base, "worktree failed", ""
        try:
            rc, o = sh(f"git -C {wt} apply {patch}")
            if rc != 0:
                sh(f"git -C /repo worktree remove --force {wt}")
                continue
            rcc, oc = sh(f"{PY} -u {VERIF}/run.py {prop} --tier quick --no-evidence --jobs 4", env={"VERIF_REPO": wt})
            first = next((l.strip() for l in oc.splitlines() if "violation class=" in l), "")
            return sid, prop, sh(f"git -C {wt} rev-parse --short HEAD")[1].strip(), f"exit {rcc}", first[:140].replace("|", "/")
        finally:
            sh(f"git -C /repo worktree remove --force {wt}")
    return sid, prop, "-", "does not apply", ""


def main():
    args = [a for a in sys.argv[1:]]
    jobs = 4
    if "--jobs" in args:
        i = args.index("--jobs")
        jobs = int(args[i + 1])
        del args[i : i + 2]
    dirs = sorted(glob.glob(os.path.join(VERIF, "seeded", "C*")))
    if args:
        dirs = [d for d in dirs if any(os.path.basename(d).startswith(a) for a in args)]
    rows, bad = [], 0
    with cf.ThreadPoolExecutor(jobs) as ex:
        for sid, prop, base, res, first in ex.map(one, dirs):
            m = json.load(open(os.path.join(VERIF, "seeded", sid, "meta.json")))
            want = "exit 0" if m.get("not_a_violation") else "exit 1"
            ok = res == want
            bad += not ok
            rows.append((sid, prop, base, res, "as expected" if ok else "UNEXPECTED", first))
            print(sid, base, res, "OK" if ok else "UNEXPECTED", first[:100], flush=True)
    if not args:
        with open(os.path.join(VERIF, "seeded", "RECHECK.md"), "w") as fh:
            fh.write("# Every filed seeded change against the CURRENT quick checks (tools/seed_recheck.py)\n\n")
            fh.write("| seed | property | applied to | quick check | | first failure class |\n|---|---|---|---|---|---|\n")
            for r in rows:
                fh.write("| " + " | ".join(r) + " |\n")
            fh.write(f"\n{len(rows)} seeded changes, {len(rows) - bad} as expected.\n")
    sys.exit(1 if bad else 0)


if __name__ == "__main__":
    main()
