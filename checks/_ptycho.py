"""Shared ptychography helper: an independent reference simulator + a deterministic problem builder.

Import as ``from checks import _ptycho``.  Used by C02 (forward pipeline vs simulator) and meant to be
reused by C05 (resume), C09 (batching) and C16 (operator identities).

Two halves, deliberately kept apart:

A. REFERENCE SIDE — pure NumPy, float64/complex128, imports nothing from quantem.  Written from the
   physics of multislice mixed-state ptychography, not from the library code:

   wavelength(energy_eV)                 relativistic de Broglie wavelength in Angstrom
   normalise(cfg) -> dict                fills the defaults of a config dict (see CONFIG below)
   geometry(cfg) -> Geometry             roi, scan, sampling [A], dq [1/A], step [A], crop_shape, pad, pad_adj
                                         (padding after the divisible-by-8 adjustment), obj_shape (H,W),
                                         positions_px (J,2), origin = round(positions), frac, rows (J,R), cols (J,C),
                                         patch_flat (J,R,C) periodic flat indices, num_patterns,
                                         .degenerate (zero-length object axis: nothing can be built),
                                         .fragile (a position or the field of view sits on a rounding
                                         discontinuity: callers should not enumerate such a point)
   make_probe(cfg, geo, rng)  -> (M,R,C) complex128, corner-centred, modes exactly orthogonal and sorted by
                                         decreasing intensity, sum |probe|^2 = cfg["dose"]
   make_object(cfg, geo, rng) -> (S,H,W) complex128 unit-amplitude object, or float64 potential in [0.5,1.5]
   transmission(obj, obj_type)           obj itself, or exp(i*V) for "potential"
   propagator(roi, sampling, lam, dz)    Fresnel propagator exp(-i*pi*lam*dz*k^2), corner-centred
   simulate(obj, probe, geo, cfg, idx=None) -> (J,R,C) float64 detector-centred intensities
   perturb_object(obj, cfg, geo, kind, rng)   kind in OBJECT_PERTURBATIONS = ("kick", "ramp", "noise")
   perturb_probe(probe, cfg, geo, kind)       kind in PROBE_PERTURBATIONS  = ("defocus", "mode_amp")
   ref_loss(I_pred, I_meas, loss_type, num_total, mean_intensity) -> float   data-fidelity loss of a batch:
                                         sum |f(pred)-f(meas)|^p / (batch fraction) / mean pattern intensity
   partitions(J) -> [(batch_size, [index arrays])]   every contiguous partition of range(J), batch size 1..J
   wrap_thicknesses(seq, container)      the sequence as list / tuple / ndarray / tensor / scalar
   reorder_patterns(geo, perm)           copy of a Geometry with the patterns in another order (for data / positions fed to
                                         the library in a permuted pattern order; simulate() then follows that order)

   Model: exit_j,m = T_{S-1} . P_{S-2}( ... T_1 . P_0( T_0 . shift(probe_m, frac_j) ) )
          I_j      = fftshift( sum_m |FFT_ortho(exit_j,m)|^2 )
   with T_s the periodic ROI-sized patch of slice s whose origin (probe centre) is round(position_j),
   rows/cols in FFT order (0,1,..,-2,-1), shift = Fourier shift by the fractional part of the position,
   P_s = IFFT( FFT(.) * exp(-i*pi*lambda*dz_s*k^2) ).

B. LIBRARY SIDE — quantem is imported lazily inside the functions.

   build(cfg, rng, obj_init=None, probe_init=None, sim=None) -> Problem
        Deterministic: everything random comes from `rng` (a numpy Generator); every quantem sub-model that
        accepts rng= gets an integer seed drawn from it (ObjectPixelated, ProbePixelated, Ptychography).
        Steps: geometry -> ground-truth object/probe -> simulate -> Dataset4dstem (float32) ->
        PtychographyDatasetRaster.from_dataset4dstem(learn_descan=False, learn_scan_positions=False)
        .preprocess(com_fit_function=cfg["descan"], force_com_rotation=0, force_com_transpose=False, ...)
        -> ObjectPixelated.from_array(object at the independently computed padded shape)
        -> ProbePixelated.from_array -> Ptychography.from_models(...).preprocess(obj_padding_px=cfg["pad"])
        -> ground-truth probe installed through the public `probe_model.probe` setter.
        `obj_init` / `probe_init` install other arrays than the ground truth (starting guesses for C05/C09).
        `sim` lets a caller pass precomputed intensities.  No quantem constraint is switched off: the
        ground truth is built so that the default hard constraints (probe orthogonalisation, |obj|<=1,
        potential positivity) are no-ops on it.
        A degenerate geometry returns a Problem with .degenerate=True and .ptycho=None.

   Problem attributes: cfg, geo, lam, obj_true, probe_true, intensities (J,R,C float64), ptycho, dset,
        obj_model, probe_model, detector_model, num_patterns, seeds, degenerate
   Problem methods (all through public quantem API):
        set_probe(arr)            public probe setter
        install_order(modes)      modes re-ordered as cfg["mode_order"] asks (callers installing a probe of their own
                                  under a mode_order use set_probe(P.install_order(arr)))
        probe_readback()          the public Ptychography.probe property (hard constraints applied), complex128
        set_probe_model(arr)      fresh ProbePixelated (any mode count) via the public `ptycho.probe_model` setter +
                                  Ptychography.preprocess + public probe setter
        set_object(arr, thicknesses=None)   fresh ObjectPixelated.from_array + Ptychography.preprocess (no object setter
                                  exists); other thicknesses / another slice count than the build are allowed
        set_loss_type(lt)         ptycho.reconstruct(num_iters=0, loss_type=lt): makes dset.targets match lt
        predict(idx=None)         dset.forward -> probe_model.forward -> obj_model.forward -> forward_operator
                                  -> detector_model.forward ; returns a torch tensor (batch,R,C) with graph
        loss(pred, idx, lt)       ptycho.error_estimate(pred, idx, loss_type=lt)[0]
        parameters()              (object parameter tensors, probe parameter tensors) via the public `params`
        loss_and_grads(idx, lt)   (loss float, grad wrt object parameters, grad wrt probe parameters) as flat
                                  ndarrays, torch.autograd.grad on the public forward chain (call
                                  set_loss_type(lt) first so that the targets match)
        lib_geometry()            dict: obj_shape [S,H,W], obj_padding_px, positions_px, patch_indices, sampling
        wrap(other_ptycho)        the same problem (configuration, truth, data) addressed at another Ptychography instance
                                  (clone, re-loaded copy): predict / loss / set_* then act on that instance
        fresh_dataset()           a new, identically preprocessed PtychographyDatasetRaster on the same intensities
        (build(..., data_file=path) makes the dataset FILE-BACKED: Dataset4dstem.save -> load -> public file_path setter)
        lib_placement(idx=None)   dict from ONE dset.forward call: positions_px, origin_mod (patch origin modulo
                                  the object shape, read from patch_indices[:,0,0]), frac (shift given to the probe),
                                  obj_shape -- consistency means (origin_mod + frac - position) = 0 modulo the shape
   Perturbation alphabet (phase-only, so the default hard constraints stay no-ops): object "kick" = +1.5 rad on
   the pixel under the first probe (slice 0), "ramp" = linear phase ramp of 3.6/-2.4 rad across the object,
   "noise" = uniform +-0.3 rad from `rng`; probe "defocus" = +1200 A on every mode, "mode_amp" = strongest mode x1.4.

CONFIG (all JSON-able; missing keys take the defaults in DEFAULTS):
   obj_type   "complex" | "pure_phase" | "potential"
   slices     int >= 1;  thicknesses: list of slices-1 floats in Angstrom (default 60+30*s, unequal)
   modes      int >= 1 incoherent probe modes
   roi        [R, C] detector / probe shape (even sizes for descan "no_shift")
   scan       [nr, nc] raster grid
   step       "commensurate" (2 object pixels per step: integer pixel positions) | "fractional"
              ((1.3, 1.7) object pixels) | [sr, sc] explicit step in object pixels
   pad        [pr, pc] requested object padding in pixels
   sampling   [sr, sc] object pixel size in Angstrom (detector sampling is 1/(roi*sampling))
   energy     eV
   descan     "no_shift" | "constant"  (com_fit_function given to the dataset preprocessing)
   content    "random" (seeded unit-amplitude random-phase object) | "vacuum" (uniform object)
   dose       total probe intensity = mean pattern intensity
   defocus, mode_defocus_step (Angstrom), aperture_frac (of the smaller Nyquist frequency)
   phase_sigma  rad, standard deviation of the object phase
   thickness_container  "list" | "tuple" | "ndarray" | "tensor" | "scalar": the Python container in which the thickness
              sequence is handed to ObjectPixelated.from_array (wrap_thicknesses(); set_object(..., container=) overrides)
   probe_params_order   None | list of the keys "energy", "defocus", "semiangle_cutoff": insertion order of the probe_params dict
   mode_order None | permutation of range(modes): order in which build() installs the ground-truth modes (which are
              built strongest first, weights 1, 1/4, 1/9); probe_true keeps the strongest-first order
   tie        "even" | "up": which pixel the SIMULATOR takes as patch origin when a position is an exact half-pixel
              tie (round-half-to-even like numpy/torch round, or floor(p+0.5)); the fractional shift follows
              (position - origin), so either choice is self-consistent.  geometry() also reports .ties / .exact_ties
              (J,2 bool), .has_ties, .fragile_fov; .fragile = fragile_fov or has_ties.
   learn_scan_positions, learn_descan   bool (default False): make the dataset model's scan positions / descan shifts
              learnable, so that optimizer_params may carry a "dataset" entry (used by C05: the dataset model then owns
              optimizer state of its own that a resume path must carry along)
"""
from __future__ import annotations

import copy
import math
import types

import numpy as np

DEFAULTS = {
    "obj_type": "complex",
    "slices": 1,
    "thicknesses": None,
    "modes": 1,
    "roi": [8, 8],
    "scan": [2, 2],
    "step": "fractional",
    "pad": [0, 0],
    "sampling": [2.5, 2.0],
    "energy": 300e3,
    "descan": "no_shift",
    "content": "random",
    "dose": 1.0e6,
    "defocus": 150.0,
    "mode_defocus_step": 60.0,
    "aperture_frac": 0.6,
    "phase_sigma": 0.5,
    "learn_scan_positions": False,
    "learn_descan": False,
    "tie": "even",
    "mode_order": None,
    "thickness_container": "list",
    "probe_params_order": None,
}
STEP_KINDS = {"commensurate": (2.0, 2.0), "fractional": (1.3, 1.7)}
OBJECT_PERTURBATIONS = ("kick", "ramp", "noise")
PROBE_PERTURBATIONS = ("defocus", "mode_amp")
LOSS_TYPES = ("l2_amplitude", "l1_amplitude", "l2_intensity", "l1_intensity")
POWER2_LEVEL = 3  # the library pads the object so that each axis is divisible by 2**3


# =============================================================================== reference side
def wavelength(energy_eV: float) -> float:
    """Relativistic electron wavelength in Angstrom (CODATA constants)."""
    h = 6.62607015e-34
    m0 = 9.1093837015e-31
    e = 1.602176634e-19
    c = 299792458.0
    p = math.sqrt(2.0 * m0 * e * energy_eV * (1.0 + e * energy_eV / (2.0 * m0 * c * c)))
    return h / p * 1e10


def normalise(cfg: dict) -> dict:
    unknown = set(cfg) - set(DEFAULTS) - {"step_px"}  # step_px is derived: normalise() is idempotent
    if unknown:
        raise KeyError(f"unknown config keys {sorted(unknown)}")
    c = copy.deepcopy(DEFAULTS)
    c.update(copy.deepcopy(cfg))
    c["roi"] = [int(v) for v in c["roi"]]
    c["scan"] = [int(v) for v in c["scan"]]
    c["pad"] = [int(v) for v in c["pad"]]
    c["sampling"] = [float(v) for v in c["sampling"]]
    S = int(c["slices"])
    if c["thicknesses"] is None:
        c["thicknesses"] = [60.0 + 30.0 * s for s in range(S - 1)]
    c["thicknesses"] = [float(v) for v in c["thicknesses"]]
    if len(c["thicknesses"]) != S - 1:
        raise ValueError("thicknesses must have slices-1 entries")
    if c["mode_order"] is not None:
        c["mode_order"] = [int(v) for v in c["mode_order"]]
        if sorted(c["mode_order"]) != list(range(int(c["modes"]))):
            raise ValueError("mode_order must be a permutation of range(modes)")
    if isinstance(c["step"], str):
        c["step_px"] = list(STEP_KINDS[c["step"]])
    else:
        c["step_px"] = [float(v) for v in c["step"]]
    return c


THICKNESS_CONTAINERS = ("list", "tuple", "ndarray", "tensor", "scalar")


def wrap_thicknesses(seq, container="list"):
    """The thickness sequence `seq` (slice order) in the Python container the caller wants to hand to the library:
    list | tuple | ndarray (float64) | tensor (float32) | scalar (only for a constant sequence)."""
    vals = [float(v) for v in seq]
    if container == "list":
        return vals
    if container == "tuple":
        return tuple(vals)
    if container == "ndarray":
        return np.array(vals, dtype=float)
    if container == "tensor":
        import torch

        return torch.tensor(vals, dtype=torch.float32)
    if container == "scalar":
        if len(set(vals)) != 1:
            raise ValueError("a scalar thickness needs a constant sequence")
        return vals[0]
    raise ValueError(container)


def reorder_patterns(geo: "Geometry", perm) -> "Geometry":
    """A copy of `geo` whose patterns are visited in the order `perm` (pattern j of the copy = pattern perm[j])."""
    perm = np.asarray(perm, dtype=int)
    if sorted(perm.tolist()) != list(range(geo.num_patterns)):
        raise ValueError("perm must be a permutation of the patterns")
    g = Geometry(**vars(geo))
    for k in ("positions_px", "origin", "frac", "rows", "cols", "patch_flat", "ties", "exact_ties"):
        if hasattr(geo, k):
            setattr(g, k, getattr(geo, k)[perm])
    return g


def _fft_order(n: int) -> np.ndarray:
    """0, 1, ..., -2, -1 : signed pixel offsets of an n-sample periodic axis in FFT order."""
    out = np.arange(n)
    out[out > (n - 1) // 2] -= n
    return out


class Geometry(types.SimpleNamespace):
    pass


def geometry(cfg: dict) -> Geometry:
    """Everything the reconstruction grid is made of, computed from the experiment description alone."""
    c = cfg if "step_px" in cfg else normalise(cfg)
    roi = np.array(c["roi"], dtype=int)
    scan = np.array(c["scan"], dtype=int)
    samp = np.array(c["sampling"], dtype=float)  # object pixel size [A]
    dq = 1.0 / (roi * samp)  # detector pixel size [1/A]
    step = np.array(c["step_px"], dtype=float) * samp  # scan step [A]
    fov_px = step * (scan - 1) / samp  # scanned field of view in object pixels
    # floor() to whole pixels, then up to an even count.  fov_px within 1e-4 of an ODD integer is a
    # rounding coin-toss (single-precision step in the container) -> flagged as fragile, never guessed.
    near = np.round(fov_px)
    fragile = bool(((np.abs(fov_px - near) < 1e-4) & (near.astype(int) % 2 == 1)).any())
    crop = np.floor(fov_px + 1e-4).astype(int)
    crop += crop % 2  # even number of pixels
    pad = np.array(c["pad"], dtype=int)
    div = 2**POWER2_LEVEL
    pad_adj = pad.copy()
    for a in (0, 1):
        rem = (crop[a] + 2 * pad_adj[a]) % div
        if rem:
            pad_adj[a] += (div - rem) // 2
    shape = crop + 2 * pad_adj
    g = Geometry()
    g.roi, g.scan, g.sampling, g.dq, g.step = roi, scan, samp, dq, step
    g.crop_shape, g.pad, g.pad_adj, g.obj_shape = crop, pad, pad_adj, shape
    g.degenerate = bool((shape <= 0).any())
    ii, jj = np.meshgrid(np.arange(scan[0]), np.arange(scan[1]), indexing="ij")
    pos = np.stack([ii.ravel() * step[0] / samp[0] + pad_adj[0], jj.ravel() * step[1] / samp[1] + pad_adj[1]], axis=-1)
    g.positions_px = pos
    # a position within 1e-4 px of a half-integer makes round() a coin-toss as well, unless it is an EXACT tie
    # (dyadic sampling/steps): then the nearest pixel is a matter of convention, chosen by cfg["tie"]:
    # "even" = round half to even (numpy/torch round), "up" = floor(p + 0.5).  The physics prescribes neither,
    # only that patch origin + fractional shift = position.
    g.ties = np.abs(np.abs(pos - np.round(pos)) - 0.5) < 1e-4  # (J,2) bool
    g.exact_ties = (pos - np.floor(pos)) == 0.5
    g.has_ties = bool(g.ties.any())
    g.fragile_fov = fragile
    g.fragile = fragile or g.has_ties
    g.num_patterns = int(pos.shape[0])
    if c.get("tie", "even") == "up":
        g.origin = np.floor(pos + 0.5).astype(int)
    elif c.get("tie", "even") == "even":
        g.origin = np.round(pos).astype(int)  # probe centre pixel = patch origin
    else:
        raise ValueError(f"tie must be 'even' or 'up', got {c['tie']!r}")
    g.frac = pos - g.origin
    if not g.degenerate:
        ro, co = _fft_order(roi[0]), _fft_order(roi[1])
        g.rows = (g.origin[:, 0][:, None] + ro[None, :]) % shape[0]  # (J,R)
        g.cols = (g.origin[:, 1][:, None] + co[None, :]) % shape[1]  # (J,C)
        g.patch_flat = g.rows[:, :, None] * shape[1] + g.cols[:, None, :]  # (J,R,C)
    return g


def make_probe(cfg: dict, geo: Geometry, rng=None) -> np.ndarray:
    """Aperture-limited aberrated probe, M exactly orthogonal modes, corner-centred, complex128."""
    c = cfg if "step_px" in cfg else normalise(cfg)
    R, C = geo.roi
    lam = wavelength(c["energy"])
    kr = np.fft.fftfreq(R, geo.sampling[0])[:, None]
    kc = np.fft.fftfreq(C, geo.sampling[1])[None, :]
    k2 = kr**2 + kc**2
    k = np.sqrt(k2)
    nyq = min(np.abs(kr).max(), np.abs(kc).max())
    kmax = c["aperture_frac"] * nyq
    edge = min(geo.dq)
    aperture = np.sqrt(np.clip((kmax - k) / edge + 0.5, 0.0, 1.0))
    modes = []
    for m in range(int(c["modes"])):
        df = c["defocus"] + c["mode_defocus_step"] * m
        chi = np.pi * lam * df * k2 + 0.6 * (kr**2 - kc**2) / kmax**2 + 0.4 * kr * k2 / kmax**3 - 0.3 * kc * k2 / kmax**3
        poly = 1.0 if m == 0 else (kr / kmax if m % 2 == 1 else kc / kmax) ** ((m + 1) // 2)
        modes.append(np.fft.ifft2(aperture * poly * np.exp(-1j * chi)))
    # exact Gram-Schmidt in double precision, then fixed decreasing weights 1, 1/4, 1/9, ...
    ortho = []
    for v in modes:
        for u in ortho:
            v = v - np.vdot(u, v) * u
        ortho.append(v / np.sqrt(np.vdot(v, v).real))
    w = np.array([1.0 / (1 + m) for m in range(len(ortho))])
    w = w / np.sqrt((w**2).sum()) * np.sqrt(c["dose"])
    return np.array([a * u for a, u in zip(w, ortho)], dtype=np.complex128)


def make_object(cfg: dict, geo: Geometry, rng) -> np.ndarray:
    c = cfg if "step_px" in cfg else normalise(cfg)
    S = int(c["slices"])
    H, W = geo.obj_shape
    if c["content"] == "vacuum":
        ph = np.full((S, H, W), 0.3)
    else:
        ph = rng.normal(size=(S, H, W)) * c["phase_sigma"]
    if c["obj_type"] == "potential":
        # a non-negative potential with room for the perturbation alphabet (positivity is a no-op on it)
        return 1.0 + 0.5 * np.tanh(ph)
    return np.exp(1j * ph)


def transmission(obj: np.ndarray, obj_type: str) -> np.ndarray:
    return np.exp(1j * obj) if obj_type == "potential" else obj


def propagator(roi, sampling, lam: float, dz: float) -> np.ndarray:
    kr = np.fft.fftfreq(int(roi[0]), sampling[0])[:, None]
    kc = np.fft.fftfreq(int(roi[1]), sampling[1])[None, :]
    return np.exp(-1j * np.pi * lam * dz * (kr**2 + kc**2))


def simulate(obj: np.ndarray, probe: np.ndarray, geo: Geometry, cfg: dict, idx=None) -> np.ndarray:
    """Detector-centred diffraction intensities (len(idx), R, C), float64."""
    c = cfg if "step_px" in cfg else normalise(cfg)
    lam = wavelength(c["energy"])
    T = transmission(np.asarray(obj), c["obj_type"])
    S = T.shape[0]
    R, C = geo.roi
    fr = np.fft.fftfreq(R)[:, None]
    fc = np.fft.fftfreq(C)[None, :]
    props = [propagator(geo.roi, geo.sampling, lam, dz) for dz in c["thicknesses"]]
    fprobe = np.fft.fft2(probe)
    idx = range(geo.num_patterns) if idx is None else idx
    out = np.empty((len(idx), R, C))
    for n, j in enumerate(idx):
        ramp = np.exp(-2j * np.pi * (fr * geo.frac[j, 0] + fc * geo.frac[j, 1]))
        psi = np.fft.ifft2(fprobe * ramp)  # (M,R,C) probe centred at the fractional position
        rc = np.ix_(geo.rows[j], geo.cols[j])
        psi = T[0][rc] * psi
        for s in range(1, S):
            psi = np.fft.ifft2(np.fft.fft2(psi) * props[s - 1])
            psi = T[s][rc] * psi
        far = np.fft.fft2(psi, norm="ortho")
        out[n] = np.fft.fftshift((far.real**2 + far.imag**2).sum(0))
    return out


def perturb_object(obj: np.ndarray, cfg: dict, geo: Geometry, kind: str, rng=None) -> np.ndarray:
    """Phase-only perturbations (unit amplitude is kept; potentials stay positive)."""
    c = cfg if "step_px" in cfg else normalise(cfg)
    S, H, W = obj.shape
    if kind == "kick":  # one pixel under the centre of the first probe, first slice
        d = np.zeros((S, H, W))
        d[0, geo.origin[0, 0] % H, geo.origin[0, 1] % W] = 1.5
    elif kind == "ramp":  # smooth phase ramp over the whole object, every slice
        r = (np.arange(H) / H - 0.5)[:, None]
        q = (np.arange(W) / W - 0.5)[None, :]
        d = np.broadcast_to((3.6 * r - 2.4 * q) / S, (S, H, W)).copy()
        d -= d.min() - 0.02
    elif kind == "noise":  # seeded noise, every pixel, every slice
        d = 0.3 * rng.uniform(-1.0, 1.0, size=(S, H, W))
    else:
        raise ValueError(kind)
    if c["obj_type"] == "potential":
        return obj + d
    return obj * np.exp(1j * d)


def perturb_probe(probe: np.ndarray, cfg: dict, geo: Geometry, kind: str) -> np.ndarray:
    c = cfg if "step_px" in cfg else normalise(cfg)
    if kind == "defocus":  # extra defocus on every mode (keeps orthogonality: unitary)
        return np.fft.ifft2(np.fft.fft2(probe) * propagator(geo.roi, geo.sampling, wavelength(c["energy"]), 1200.0))
    if kind == "mode_amp":  # amplitude of the strongest mode x1.4 (order of mode intensities unchanged)
        p = probe.copy()
        p[0] *= 1.4
        return p
    raise ValueError(kind)


def ref_loss(I_pred: np.ndarray, I_meas: np.ndarray, loss_type: str, num_total: int, mean_intensity: float) -> float:
    """Data-fidelity loss of one batch: sum |f(pred)-f(meas)|^p / (batch fraction) / mean pattern intensity."""
    a, b = (np.sqrt(I_pred), np.sqrt(I_meas)) if "amplitude" in loss_type else (I_pred, I_meas)
    d = np.abs(a - b)
    s = d.sum() if loss_type.startswith("l1") else (d**2).sum()
    return float(s / (I_pred.shape[0] / num_total) / mean_intensity)


def partitions(J: int):
    """Every contiguous partition of range(J) for batch size 1..J: [(b, [idx arrays]), ...]."""
    out = []
    for b in range(1, J + 1):
        out.append((b, [np.arange(i, min(i + b, J)) for i in range(0, J, b)]))
    return out


# =============================================================================== library side
class Problem(types.SimpleNamespace):
    """One built ptychography problem: ground truth + simulated data + the live quantem objects."""

    # ---- installing states through the public API
    def set_probe(self, arr):
        self.probe_model.probe = np.asarray(arr).astype(np.complex64)

    def install_order(self, modes):
        """The (M,R,C) modes in the order in which cfg["mode_order"] wants them installed (identity when None)."""
        perm = self.cfg.get("mode_order")
        return np.asarray(modes) if perm is None else np.asarray(modes)[list(perm)]

    def probe_readback(self):
        """The probe as the public Ptychography.probe property returns it (hard constraints applied), complex128."""
        return np.asarray(self.ptycho.probe).astype(np.complex128)

    def _probe_params(self):
        c = self.cfg
        d = {"energy": c["energy"], "defocus": c["defocus"], "semiangle_cutoff": 1e3 * self.lam * c["aperture_frac"] * min(0.5 / self.geo.sampling)}
        if c.get("probe_params_order"):  # same content, keys inserted in another order
            d = {k: d[k] for k in c["probe_params_order"]}
        return d

    def set_probe_model(self, arr):
        """Attach a FRESH ProbePixelated (any number of modes) through the public `ptycho.probe_model` setter,
        re-run Ptychography.preprocess, then install `arr` through the public probe setter."""
        from quantem.diffractive_imaging.probe_models import ProbePixelated

        a = np.asarray(arr).astype(np.complex64)
        self.probe_model = ProbePixelated.from_array(a, probe_params=self._probe_params(), rng=self.seeds["probe"])
        self.ptycho.probe_model = self.probe_model
        self.ptycho.preprocess(obj_padding_px=tuple(self.cfg["pad"]), plot_rotation=False, plot_com=False)
        self.set_probe(a)

    def _new_obj_model(self, arr, thicknesses=None, container=None):
        from quantem.diffractive_imaging.object_models import ObjectPixelated

        c = self.cfg
        a = np.asarray(arr)
        a = a.astype(np.float32) if c["obj_type"] == "potential" else a.astype(np.complex64)
        if thicknesses is None:
            thicknesses = c["thicknesses"]
        thicknesses = [float(v) for v in thicknesses]
        if len(thicknesses) != a.shape[0] - 1:
            raise ValueError("need one thickness per slice gap of the installed object")
        container = container or c.get("thickness_container", "list")
        return ObjectPixelated.from_array(
            a,
            obj_type=c["obj_type"],
            slice_thicknesses=(wrap_thicknesses(thicknesses, container) if a.shape[0] > 1 else None),
            rng=self.seeds["object"],
        )

    def set_object(self, arr, thicknesses=None, container=None):
        """There is no public object setter: a fresh ObjectPixelated.from_array is attached and
        Ptychography.preprocess re-run (the dataset stays preprocessed; the probe is re-installed).
        `thicknesses` (default cfg["thicknesses"]) may differ from the build; the slice count is arr.shape[0]."""
        probe_now = self.probe_model.probe.detach().cpu().numpy()
        self.obj_model = self._new_obj_model(arr, thicknesses, container)
        self.ptycho.obj_model = self.obj_model
        self.ptycho.preprocess(obj_padding_px=tuple(self.cfg["pad"]), plot_rotation=False, plot_com=False)
        self.set_probe(probe_now)

    def set_loss_type(self, loss_type):
        """Public way to make dset.targets follow the loss type: a zero-iteration reconstruct()."""
        self.ptycho.reconstruct(num_iters=0, loss_type=loss_type)

    # ---- forward pipeline exactly as reconstruct() chains it
    def predict(self, idx=None):
        p = self.ptycho
        idx = np.arange(self.num_patterns) if idx is None else np.asarray(idx)
        patch_indices, _pos, pos_frac, descan = p.dset.forward(idx, p.obj_padding_px)
        shifted = p.probe_model.forward(pos_frac)
        patches = p.obj_model.forward(patch_indices)
        _prop, overlap = p.forward_operator(patches, shifted, descan)
        return p.detector_model.forward(overlap)

    def loss(self, pred, idx, loss_type):
        return self.ptycho.error_estimate(pred, np.asarray(idx), loss_type=loss_type)[0]

    def parameters(self):
        """(object parameter tensors, probe parameter tensors) through the public `params` properties."""
        import torch

        def as_list(p):
            if isinstance(p, torch.Tensor):
                return [p]
            return [q for q in p if isinstance(q, torch.Tensor) and q.requires_grad]

        return as_list(self.obj_model.params), as_list(self.probe_model.params)

    def loss_and_grads(self, idx, loss_type):
        import torch

        idx = np.arange(self.num_patterns) if idx is None else np.asarray(idx)
        po, pp = self.parameters()
        pred = self.predict(idx)
        l = self.loss(pred, idx, loss_type)
        g = torch.autograd.grad(l, po + pp, allow_unused=True)
        gs = [np.zeros(tuple(q.shape)) if gi is None else gi.detach().cpu().numpy() for gi, q in zip(g, po + pp)]
        go = np.concatenate([np.ravel(x) for x in gs[: len(po)]])
        gp = np.concatenate([np.ravel(x) for x in gs[len(po) :]])
        return float(l), go, gp

    def wrap(self, other_ptycho):
        """A Problem with the same configuration / ground truth / data whose live objects are those of ANOTHER Ptychography
        instance (a clone, a re-loaded copy, ...), so that predict / loss / set_* address that instance."""
        q = Problem(**vars(self))
        q.ptycho = other_ptycho
        q.dset, q.obj_model, q.probe_model, q.detector_model = other_ptycho.dset, other_ptycho.obj_model, other_ptycho.probe_model, other_ptycho.detector_model
        return q

    def fresh_dataset(self):
        """A new PtychographyDatasetRaster built from the same intensities and preprocessed exactly like the one of build()."""
        from quantem.core.datastructures.dataset4dstem import Dataset4dstem
        from quantem.diffractive_imaging.dataset_models import PtychographyDatasetRaster

        c, geo = self.cfg, self.geo
        R, C = geo.roi
        ds = Dataset4dstem.from_array(
            self.intensities.reshape(geo.scan[0], geo.scan[1], R, C).astype(np.float32),
            sampling=(geo.step[0], geo.step[1], geo.dq[0], geo.dq[1]), units=("A", "A", "A^-1", "A^-1"))
        d = PtychographyDatasetRaster.from_dataset4dstem(ds, verbose=0, learn_descan=bool(c["learn_descan"]), learn_scan_positions=bool(c["learn_scan_positions"]))
        d.preprocess(com_fit_function=c["descan"], force_com_rotation=0, force_com_transpose=False, plot_rotation=False, plot_com=False,
                     probe_energy=c["energy"], obj_padding_px=tuple(int(v) for v in self.ptycho.obj_padding_px))
        return d

    def lib_placement(self, idx=None):
        """How one forward pass places every probe: dict with positions_px (batch,2), origin_mod (batch,2) = patch
        origin modulo the object shape (read from patch_indices[:, 0, 0]), frac (batch,2) = the fractional shift
        handed to the probe model; all taken from ONE public dset.forward call."""
        import torch

        p = self.ptycho
        idx = np.arange(self.num_patterns) if idx is None else np.asarray(idx)
        with torch.no_grad():
            patch_indices, pos, pos_frac, _descan = p.dset.forward(idx, p.obj_padding_px)
        W = int(p.obj_shape_full[-1])
        flat0 = patch_indices[:, 0, 0].detach().cpu().numpy().astype(np.int64)
        return {
            "positions_px": pos.detach().cpu().numpy().astype(float),
            "origin_mod": np.stack([flat0 // W, flat0 % W], axis=-1),
            "frac": pos_frac.detach().cpu().numpy().astype(float),
            "obj_shape": np.array([int(v) for v in p.obj_shape_full[-2:]]),
        }

    def lib_geometry(self):
        p = self.ptycho
        return {
            "obj_shape": [int(v) for v in p.obj_shape_full],
            "obj_padding_px": [int(v) for v in p.obj_padding_px],
            "positions_px": p.dset.scan_positions_px.detach().cpu().numpy().astype(float),
            "patch_indices": p.dset.patch_indices.detach().cpu().numpy().astype(np.int64),
            "sampling": np.asarray(p.sampling, dtype=float),
        }


def build(cfg: dict, rng, obj_init=None, probe_init=None, sim=None, data_file=None) -> Problem:
    """Build one problem (see module docstring). `rng` is a numpy Generator owned by the caller."""
    c = normalise(cfg)
    geo = geometry(c)
    seeds = {k: int(rng.integers(1, 2**31 - 1)) for k in ("object", "probe", "ptycho")}
    P = Problem(cfg=c, geo=geo, lam=wavelength(c["energy"]), seeds=seeds, degenerate=geo.degenerate, ptycho=None, num_patterns=geo.num_patterns)
    if geo.degenerate:
        return P
    P.obj_true = make_object(c, geo, rng)
    P.probe_true = make_probe(c, geo, rng)
    P.intensities = simulate(P.obj_true, P.probe_true, geo, c) if sim is None else np.asarray(sim, dtype=float)

    import warnings

    warnings.simplefilter("ignore")
    from quantem.core.datastructures.dataset4dstem import Dataset4dstem
    from quantem.diffractive_imaging.dataset_models import PtychographyDatasetRaster
    from quantem.diffractive_imaging.detector_models import DetectorPixelated
    from quantem.diffractive_imaging.probe_models import ProbePixelated
    from quantem.diffractive_imaging.ptychography import Ptychography

    R, C = geo.roi
    ds = Dataset4dstem.from_array(
        P.intensities.reshape(geo.scan[0], geo.scan[1], R, C).astype(np.float32),
        sampling=(geo.step[0], geo.step[1], geo.dq[0], geo.dq[1]),
        units=("A", "A", "A^-1", "A^-1"),
    )
    if data_file is not None:
        # file-backed dataset through the library's own writer/reader: Dataset4dstem.save -> load -> public file_path setter
        from quantem.core.io.serialize import load as _load

        ds.save(str(data_file), mode="o")
        ds = _load(str(data_file))
        ds.file_path = str(data_file)
        P.data_file = str(data_file)
    dset = PtychographyDatasetRaster.from_dataset4dstem(ds, verbose=0, learn_descan=bool(c["learn_descan"]), learn_scan_positions=bool(c["learn_scan_positions"]))
    dset.preprocess(
        com_fit_function=c["descan"],
        force_com_rotation=0,
        force_com_transpose=False,
        plot_rotation=False,
        plot_com=False,
        probe_energy=c["energy"],
    )
    P.dset = dset
    P.obj_model = P._new_obj_model(P.obj_true if obj_init is None else obj_init)
    # ground-truth modes are built strongest first; cfg["mode_order"] installs them in another order (the incoherent
    # mode sum does not depend on it)
    start_probe = P.install_order(P.probe_true) if probe_init is None else np.asarray(probe_init)
    P.probe_model = ProbePixelated.from_array(start_probe.astype(np.complex64), probe_params=P._probe_params(), rng=seeds["probe"])
    P.detector_model = DetectorPixelated()
    P.ptycho = Ptychography.from_models(
        dset=dset, obj_model=P.obj_model, probe_model=P.probe_model, detector_model=P.detector_model, rng=seeds["ptycho"], verbose=0
    )
    P.ptycho.preprocess(obj_padding_px=tuple(c["pad"]), plot_rotation=False, plot_com=False)
    # the library rescales / phase-ramps the starting probe; the wanted probe goes in through the public setter
    P.set_probe(start_probe)
    return P
