"""C04 — direct ptychography: batch-invariant, linear, exact on analytic cases, no hidden state.

Shapes S + L of DESIGN §1. The configuration lattice

    scan shape x construction mask x sub-mask x aberrations x rotation x kernel (and every alias string)
    x parallax sign flipping x upsampling x low/high-pass filter

is enumerated completely, and at EVERY point the schedule dimension is enumerated completely too: every
``max_batch_size`` from 1 to the number of bright-field pixels of the (sub-)mask, and None. Every
evaluation runs the real ``DirectPtychography.from_virtual_bfs(...).reconstruct(...)`` and reads
``corrected_stack`` / ``corrected_bf``.

Oracles
 (1) batch size b == one batch (relative tolerance), alias string == canonical kernel name (bit-identical);
 (2) linearity R(2x-3y) = 2R(x)-3R(y) on seeded pairs at every point, and for the smallest scan shape on the
     full DELTA BASIS of the stack: R(x) = sum_j x_j R(e_j);
 (3) single-pass kernels (ssb, prlx, icom): sum over a partition of the mask of W_sub * R_sub = W_full * R_full,
     W = aperture weight sum |psi(k)|^2 over the mask as the library's own probe evaluation reports it. The
     two-pass kernels (obf, mf) are NOT claimed to recombine and do not: they run as a built-in sensitivity
     control (if they start to satisfy the relation the oracle has gone blind -> harness.Broken);
 (4) parallax without sign flipping: R = sum_i T_i(v_i - mean_i) / W with T_i the translation by
     +grad chi(k_i)/2pi (identity for zero aberrations), computed by an independent NumPy Fourier shift and
     an independent closed-form gradient of the defocus/astigmatism surface;
 (5) determinism / no hidden state: two fresh objects agree bit for bit; an object that has gone through all
     other batch sizes, sub-masks, filters and an unrelated reconstruct (other kernel, upsampling, override
     aberrations and rotation, other sub-mask) reproduces the fresh result bit for bit; hyper-parameters given
     as reconstruct(override_...) == given at construction;
 (6) (added for the mutant "Butterworth envelope applied twice in the two-pass kernels", which none of (1)-(5)
     can see) the low/high-pass envelope is a function of the filter hyper-parameters only: in Fourier space
     F[R_k,filtered] * F[R_p,unfiltered] = F[R_k,unfiltered] * F[R_p,filtered] for every kernel k against the
     reference kernel p = parallax without flipping. No filter formula is assumed.
 (7) spellings of mask-like / index-like arguments: one sub-mask handed to reconstruct(bf_mask=...) as torch
     bool/uint8/int16/int32/int64/float32/float64 tensors, NumPy bool/uint8/int64/float64 arrays, nested lists/tuples,
     transposed / strided / Fortran-ordered views and as the complement written by arithmetic (full.int() - other.int());
     max_batch_size / upsampling_factor as NumPy / torch / float scalars; the construction mask in other dtypes. Every
     spelling the library accepts must equal the canonical torch.bool / int spelling for every kernel, recombine with its
     complement (single-pass kernels) and satisfy the parallax closed form; rejected spellings are counted per spelling;
 (8) aberration spelling x source precedence: for every coefficient that has an alias (defocus/C10, astigmatism/C12,
     astigmatism_angle/phi12, coma/C21, coma_angle/phi21, Cs/C30, C5/C50 - read from the library's alias table), every
     combination of constructor {none, canonical, alias} x optimized state {none, or set through the public
     grid_search_hyperparameters (single grid point / fixed value) and optimize_hyperparameters (low == high), canonical /
     alias} x override at reconstruct {none, canonical, alias, canonical 0.0, alias 0.0} must give the result of the
     equivalent all-canonical object (override > optimized > initial regardless of spelling), judged differentially and,
     for parallax without flipping with defocus/astigmatism, by the closed form (4); both spellings in ONE dictionary with
     equal values == canonical alone; for conflicting values the property states no order: the winner is only counted.
 (9) rotation-angle boundary alphabet: exactly 0, -0.0, +-pi/2, +-pi, 3pi/2, 2pi, 3pi and pi(1+-1e-6), pi/2(1+-1e-6),
     given at construction and as override_rotation_angle (radians are the only spelling the API has), judged by the
     closed form (4) at that angle, by the exact symmetry of the detector grid (a rotation by n quarter turns == rotation
     0 with every image re-assigned to the pixel at R(theta) k, every kernel), by equality modulo 2pi, by
     constructor == override, and by continuity (theta vs theta(1+1e-6)) for obf / mf / parallax / icom; ssb keeps a
     pure phase gamma/|gamma| and is not continuous in any parameter, so for ssb continuity is recorded, not judged;
 (10) key-ORDER invariance: an aberration dictionary is a mapping. Each aberration set, in canonical and alias
     spelling, in reversed order, with all angles first and with every angle directly before its magnitude, given at
     construction, as override, or split over both (angles / magnitudes / halves), must equal the canonical order
     (differentially for every kernel, and by the closed form for parallax).
 (11) histories on ONE object (shape H): every sequence up to depth 3 (4 in thorough) over {reconstruct, reconstruct(
     use_initial_state=True), reconstruct(override...), grid search over the rotation only / over one aberration,
     optimize_hyperparameters over one aberration / the rotation only (low == high, one trial), clear_optimized(), mutating
     the dictionary the aberration_coefs accessor returned; thorough adds the two fit_* methods} on an object built WITH
     constructor aberrations. After the last step (every prefix is itself a history): the constructor state is unchanged
     (accessor and reconstruct(use_initial_state=True) == fresh object), reconstruct() == fresh object built with the
     hyper-parameters the accessors report, a repeated identical search ends identically, and after clear_optimized()
     accessors and result are those of the constructor state;
 (12) copies used further: copy.copy / copy.deepcopy / pickle / deepcopy of the unpickled copy / save+load (counted as
     rejected where unsupported) of a fresh and of an already used object: every kernel variant on the copy == the original
     (and the parallax closed form), then both are used alternately: a search on one must not change the other (for the
     shallow copy.copy, which shares its members by definition, sharing is only counted).
"""
from __future__ import annotations

import itertools
import math
import re
import warnings

import numpy as np

from mc.harness import Broken, Tally

LEVEL = "exploration"
TECHNIQUE = (
    "exhaustive configuration lattice (scan shape x mask x sub-mask x aberrations x rotation x kernel+aliases x upsampling x filter) "
    "with the complete schedule dimension (every max_batch_size 1..num_bf and None) at every point; full delta basis of the stack for linearity; "
    "complete spelling families for mask / index arguments and for aberration names x sources (constructor, optimized state, override); "
    "rotation-angle boundary alphabet (exact multiples of 90 degrees and their 1e-6 neighbours) and key-order permutations of every aberration dictionary; "
    "all operation histories up to depth 3 / 4 on one object; copy / deepcopy / pickle copies used alternately with the original"
)
CLAIM = (
    "For every point of the stated lattice and every batch size 1..num_bf the reconstruction equals the one-batch result (within 3e-5 of its maximum, float32), "
    "every alias string gives the bit-identical result of its canonical kernel, the reconstruction is linear in the stack (complete delta basis "
    "for the 5x5 scan, seeded pairs elsewhere), single-pass kernels recombine over three partitions of the mask weighted by the aperture weight "
    "(two-pass kernels are kept as a control that must violate it), parallax without sign flipping equals the independently translated, "
    "mean-subtracted sum divided by the aperture weight, and results are bit-identical between fresh objects and after arbitrary intervening "
    "reconstructions; every accepted spelling of a sub-mask (23 tensor / array / list / view / complement-by-arithmetic forms), of the batch "
    "size and upsampling factor and of the construction mask gives the result of the canonical spelling, and every combination of "
    "aberration spelling (canonical / alias) and source (constructor, optimized state, reconstruct override) gives the result of the "
    "equivalent all-canonical object, whatever the key order of the dictionaries; at the exact rotation angles 0, +-pi/2, +-pi, 3pi/2, 2pi, 3pi "
    "(and 1e-6 next to them) the parallax closed form, the quarter-turn symmetry of the detector grid, equality modulo 2pi and continuity hold; after every history of public operations (reconstructions, searches, fits, undo) up to depth 3 (quick) / 4 "
    "(thorough) the constructor state is intact, the result is the fresh-object result for the reported hyper-parameters and repeated searches end "
    "identically; copies (copy, deepcopy, pickle) reconstruct like the original and stay independent of it. Exhaustive lattice + complete schedule enumeration is the right level: the defects live in batch remainders, sub-mask "
    "index mapping and two-pass normalisation, all finite dimensions; linearity closes the data quantifier for the smallest shape."
)
NOTE = (
    "Trusted: the stack order convention (image i belongs to the i-th True pixel of the mask in row-major order), the library's own "
    "evaluate_probe for the aperture weight W (own closed-form soft aperture is compared and reported), float32 tolerances relative to the "
    "output maximum. Stack contents are seeded (dyadic values so that 2x-3y is exact in float32). Scan shapes beyond 8x6, masks beyond 21 "
    "pixels, aberration values off the alphabet and soft_edges=False are not explored. Oracle (6) goes beyond the literal statement. "
    "Spelling families: 0/1-valued masks only; the optimized state is reached through the public searches with a single candidate value; "
    "'defocus' = -C10 is the one alias with a sign; for conflicting spellings in one dictionary the winner is counted in the coverage, not judged. "
    "Continuity in the rotation angle is judged for obf / mf / parallax / icom with tolerance 1e-2 (true derivative effects reach 2.7e-4); ssb is exempt (pure-phase normalisation). "
    "Histories run on one small object (6x7 scan, 9-pixel mask, defocus+astigmatism); fit_hyperparameters_least_squares is exempt from 'repeated search is identical' "
    "(it refines the current state by design); save()/load() of a DirectPtychography is not supported on the current tree (counted as rejected)."
)
RULE = (
    "Cartesian product of the alphabets in coverage.alphabet; inside each point every max_batch_size 1..num_bf(sub-mask) and None. An "
    "evaluation = one comparison of a reconstruction with its oracle. Non-trivial = the reference reconstruction is not identically zero and, "
    "for batch cases, the batch size actually splits the set (b < num_bf); distinct = distinct (relation, point, batch size) descriptors. "
    "Spelling families: Cartesian product target mask x spelling x batch size x kernel (masks) and coefficient x constructor x optimized x override "
    "x kernel (aberrations); a rejected spelling is counted per spelling and is trivial."
)

# ----------------------------------------------------------------------------- alphabets
ENERGY = 80e3
SCAN_SAMPLING = (0.4, 0.5)  # Angstrom, deliberately anisotropic
DET = (8, 8)
DK_MRAD = 8.0
MASKS = {"disc5": 12.0, "disc7": 20.0}  # semi-angle [mrad]: 9 pixels in 5x5 / 21 pixels in 7x7 after the library's crop
SHAPES = [(5, 5), (6, 7), (8, 6)]
ABERS = {
    "none": {},
    "defocus": {"C10": -120.0},
    "defocus+astig": {"C10": -120.0, "C12": 25.0, "phi12": 0.4},
    "defocus+astig+coma+Cs": {"C10": -120.0, "C12": 25.0, "phi12": 0.4, "C21": 3000.0, "phi21": -0.7, "C30": 2.0e5},
}
ANALYTIC_ABERS = ("none", "defocus", "defocus+astig")  # the property states (4) for these only
ROTS = [0.0, 0.3]
# kernel variants: (canonical name, parallax_flip_phase or None when not applicable)
KVARIANTS = [("ssb", None), ("obf", None), ("mf", None), ("prlx", True), ("prlx", False), ("icom", None)]
SINGLE_PASS = ("ssb", "prlx", "icom")
UPS = [1, 2, 3]
# (q_highpass, q_lowpass) in 1/Angstrom, chosen so that for every scan shape some frequencies sit in the transition band
FILTERS = {"none": (None, None), "low": (None, 0.8), "high": (0.45, None), "both": (0.45, 0.8)}
SUBMASKS = ["full", "cb0", "cb1", "q0", "q1", "q2", "q3", "one", "rest"]
PARTITIONS = {"checkerboard": ["cb0", "cb1"], "quadrants": ["q0", "q1", "q2", "q3"], "one+rest": ["one", "rest"]}
KNOWN_ALIASES = {
    "ssb": ["single-sideband", "acbf", "aberration-corrected-bright-field"],
    "obf": ["optimum-bright-field"],
    "mf": ["matched-filter"],
    "prlx": ["parallax", "tcbf", "tilt-corrected-bright-field"],
    "icom": ["center-of-mass"],
}

# Tolerances (float32 implementation), all relative to the maximum of the reference. "observed" = worst over seeds
# {0,1,2,7,12345}, both tiers, current tree (see max_* in the evidence); each tolerance is >= 20x the observed noise and
# <= 1/20 of the smallest effect seen in a mutant run. DESIGN proposed 5e-6 for batch invariance from a 50-point probe
# (<= 6e-7); the full lattice reaches 1.1e-6 for parallax (float32 phase ramps of up to ~100 rad evaluated in differently
# shaped einsum batches), so the 20x rule gives 3e-5.
TOL_BATCH = 3e-5  # observed: prlx 1.06e-6, mf 5.0e-7, obf 4.6e-7, ssb 3.5e-7, icom 0; mutants: power of last batch only / wrong gradient rows > 1
TOL_LIN = 5e-5  # seeded pairs, relative to max|R(2x-3y)|; observed 1.9e-6; bound by the 20x rule (no linearity mutant planned)
TOL_BASIS = 2e-4  # R(x) vs sum_j x_j R(e_j) over up to 525 float32 basis responses; observed 7.0e-6
TOL_RECOMB = 4e-5  # observed 8.7e-7; mutants: wrong index mapping / num_bf normalisation 0.13..1.9
TOL_ANALYTIC = 2e-4  # observed 6.1e-6 (float32 phase ramp); mutants: num_bf normalisation 0.16..0.33, ramp sign > 1, rotation sign > 0.8, DC kept > 3
TOL_FILTER = 4e-5  # cross-kernel envelope relation, relative to the largest product; observed 9.0e-7; envelope twice 6e-2..9e-2
TOL_OVERRIDE = 3e-5  # override_* vs constructor hyper-parameters, run with another batch size: same noise as TOL_BATCH; observed 8.6e-7
CONTROL_MIN = 1e-3  # a two-pass recombination residual above this counts as "violates" (observed minimum over the lattice: obf 1.6e-2, mf 2.4e-2)


def _lib():
    import torch

    from quantem.core.datastructures import Dataset2d, Dataset3d
    from quantem.diffractive_imaging.direct_ptychography import DirectPtychography

    return torch, Dataset2d, Dataset3d, DirectPtychography


# ----------------------------------------------------------------------------- independent side (NumPy only)
def det_mask(maskname):
    """Corner-centred detector mask on the 8x8 detector and the signed pixel coordinates of its True pixels in
    row-major (= stack) order."""
    si = np.fft.fftfreq(DET[0], 1.0 / DET[0]).round().astype(int)
    sj = np.fft.fftfreq(DET[1], 1.0 / DET[1]).round().astype(int)
    a = np.hypot(si[:, None] * DK_MRAD, sj[None, :] * DK_MRAD)
    m = a <= MASKS[maskname]
    pix = [(int(si[i]), int(sj[j])) for i, j in zip(*np.nonzero(m))]
    return m, pix


def sub_indices(pix, sub):
    """Indices (into stack order) of the bright-field pixels of a named sub-mask."""
    n = len(pix)
    if sub == "full":
        return list(range(n))
    if sub in ("cb0", "cb1"):
        par = int(sub[2])
        return [i for i, (a, b) in enumerate(pix) if (a + b) % 2 == par]
    if sub in ("q0", "q1", "q2", "q3"):
        want = {"q0": (True, True), "q1": (True, False), "q2": (False, True), "q3": (False, False)}[sub]
        return [i for i, (a, b) in enumerate(pix) if ((a >= 0), (b >= 0)) == want]
    one = pix.index((1, -1))
    if sub == "one":
        return [one]
    if sub == "rest":
        return [i for i in range(n) if i != one]
    raise ValueError(sub)


def sub_array(pix, idx, g):
    """Boolean corner-centred array of shape g for the pixels idx (what reconstruct(bf_mask=...) takes)."""
    arr = np.zeros(g, dtype=bool)
    for i in idx:
        a, b = pix[i]
        arr[a % g[0], b % g[1]] = True
    return arr


def make_stack(seed, shape, maskname, which):
    """Seeded stack 1 + 0.1*noise on a dyadic grid (13 significant bits): integer combinations are exact in float32."""
    n = len(det_mask(maskname)[1])
    rng = np.random.default_rng([seed, 4, shape[0], shape[1], n, which])
    return (1.0 + np.round(0.1 * rng.normal(size=(n,) + tuple(shape)) * 4096.0) / 4096.0).astype(np.float32)


def own_weight_map(g, maskname, rot):
    """Closed-form soft aperture |psi|^2 on the corner-centred g grid (isotropic angular sampling)."""
    da = DK_MRAD * 1e-3
    ai = np.fft.fftfreq(g[0], 1.0 / g[0])[:, None] * da
    aj = np.fft.fftfreq(g[1], 1.0 / g[1])[None, :] * da
    ax = ai * math.cos(rot) - aj * math.sin(rot)
    ay = ai * math.sin(rot) + aj * math.cos(rot)
    alpha = np.hypot(ax, ay)
    phi = np.arctan2(ay, ax)
    den = np.sqrt((np.cos(phi) * da) ** 2 + (np.sin(phi) * da) ** 2)
    return np.clip((MASKS[maskname] * 1e-3 - alpha) / den + 0.5, 0.0, 1.0) ** 2


def geometric_shifts(pix, abers, rot):
    """+grad chi(k_i)/2pi in Angstrom for defocus/astigmatism, closed form in Cartesian angles:
    chi = (2pi/lambda) * 1/2 * [C10 (ax^2+ay^2) + C12 ((ax^2-ay^2) cos 2phi12 + 2 ax ay sin 2phi12)], a = lambda k
    => grad_k chi / 2pi = (C10 ax + C12 (ax c + ay s),  C10 ay + C12 (ax s - ay c)),  evaluated at the detector pixel in the
    rotated frame (ax', ay') = R(rot) (ax, ay) and applied in the scan frame (the library's convention for rotation_angle)."""
    extra = set(abers) - {"C10", "C12", "phi12"}
    if extra:
        raise ValueError(f"closed form covers defocus/astigmatism only, got {sorted(extra)}")
    C10, C12, p12 = abers.get("C10", 0.0), abers.get("C12", 0.0), abers.get("phi12", 0.0)
    c, s = math.cos(2 * p12), math.sin(2 * p12)
    out = []
    for a, b in pix:
        ax0, ay0 = a * DK_MRAD * 1e-3, b * DK_MRAD * 1e-3
        ax = ax0 * math.cos(rot) - ay0 * math.sin(rot)
        ay = ax0 * math.sin(rot) + ay0 * math.cos(rot)
        out.append((C10 * ax + C12 * (ax * c + ay * s), C10 * ay + C12 * (ax * s - ay * c)))
    return np.asarray(out, float).reshape(-1, 2)


def parallax_oracle(images, shifts, W, up):
    """sum_i translate(v_i - mean_i, +shift_i) / W on the (up-fold finer) scan grid. For up > 1 the virtual image is the
    zero-interleaved image (the library upsamples by tiling the spectrum, which is exactly that)."""
    v = np.asarray(images, np.float64)
    v = v - v.mean(axis=(1, 2), keepdims=True)
    n, R, C = v.shape
    if up > 1:
        vv = np.zeros((n, R * up, C * up))
        vv[:, ::up, ::up] = v
        v = vv
    qx = np.fft.fftfreq(R * up, SCAN_SAMPLING[0] / up)[:, None]
    qy = np.fft.fftfreq(C * up, SCAN_SAMPLING[1] / up)[None, :]
    out = np.zeros((n, R * up, C * up))
    for i in range(n):
        ramp = np.exp(-2j * np.pi * (qx * shifts[i, 0] + qy * shifts[i, 1]))
        out[i] = np.real(np.fft.ifft2(np.fft.fft2(v[i]) * ramp))
    return out / W


def relerr(a, ref):
    a = np.asarray(a, np.float64)
    ref = np.asarray(ref, np.float64)
    if a.shape != ref.shape:
        return float("inf")
    s = float(np.max(np.abs(ref))) if ref.size else 0.0
    d = float(np.max(np.abs(a - ref))) if ref.size else 0.0
    if not np.isfinite(d):
        return float("inf")
    return d / s if s > 0 else d


# ----------------------------------------------------------------------------- library side
_ALIAS_CACHE = {}


def alias_table():
    """canonical -> alias strings: the known table plus anything else found in the library's alias resolver."""
    if "t" in _ALIAS_CACHE:
        return _ALIAS_CACHE["t"], _ALIAS_CACHE["found"]
    table = {k: list(v) for k, v in KNOWN_ALIASES.items()}
    found = None
    try:
        import inspect

        _, _, _, DP = _lib()
        src = inspect.getsource(getattr(DP, "_normalize_kernel_name"))
        found = 0
        for a, c in re.findall(r"[\"']([A-Za-z0-9_\- ]+)[\"']\s*:\s*[\"']([a-z]+)[\"']", src):
            if c in table and a != c:
                found += 1
                if a not in table[c]:
                    table[c].append(a)
    except Exception:
        found = None
    _ALIAS_CACHE["t"], _ALIAS_CACHE["found"] = table, found
    return table, found


class ReconError(Exception):
    """The library raised inside reconstruct() at a valid lattice point: a verdict, not a crash of the check."""


def build(stack, maskname, abers, rot, seed):
    torch, Dataset2d, Dataset3d, DP = _lib()
    m8, _ = det_mask(maskname)
    vd = Dataset3d.from_array(np.array(stack, dtype=np.float32, copy=True), units=("index", "A", "A"), sampling=(1,) + SCAN_SAMPLING)
    md = Dataset2d.from_array(m8.copy(), units=("mrad", "mrad"), sampling=(DK_MRAD, DK_MRAD))
    with warnings.catch_warnings():
        warnings.simplefilter("ignore")
        return DP.from_virtual_bfs(
            vd, md, energy=ENERGY, rotation_angle=rot, aberration_coefs=dict(abers), semiangle_cutoff=MASKS[maskname], verbose=0, crop_bf_mask=True, rng=int(seed) % (2**31)
        )


def recon(dp, kv, up, filt, arr, b, alias=None, **extra):
    """One real reconstruction; returns a float64 copy of corrected_stack."""
    torch = _lib()[0]
    kern, flip = kv
    hp, lp = FILTERS[filt]
    kw = dict(deconvolution_kernel=alias or kern, upsampling_factor=up, max_batch_size=b, q_highpass=hp, q_lowpass=lp, verbose=False)
    if flip is not None:
        kw["parallax_flip_phase"] = flip
    if arr is not None:
        kw["bf_mask"] = torch.as_tensor(arr.copy())
    kw.update(extra)
    with warnings.catch_warnings():
        warnings.simplefilter("ignore")
        try:
            dp.reconstruct(**kw)
        except Exception as ex:
            shown = {k: (v if k != "bf_mask" else f"<{type(v).__name__} {getattr(v, 'dtype', '')}>") for k, v in kw.items()}
            raise ReconError(f"reconstruct({shown}) raised {type(ex).__name__}: {str(ex)[:300]}") from ex
    return dp.corrected_stack.detach().cpu().numpy().copy()


def lib_weight_map(dp, abers, rot):
    """|psi(k)|^2 from the library's own probe evaluation (public functions of complex_probe); None if the seam is gone."""
    try:
        import quantem.diffractive_imaging.complex_probe as CP

        kxa, kya = CP.spatial_frequencies(tuple(int(v) for v in dp.gpts), dp.sampling, rotation_angle=rot)
        k, phi = CP.polar_coordinates(kxa, kya)
        pr = CP.evaluate_probe(k * dp.wavelength, phi, dp.semiangle_cutoff, dp.angular_sampling, dp.wavelength, aberration_coefs=dict(abers))
        return pr.abs().square().detach().cpu().numpy().astype(np.float64)
    except Exception:
        return None


class Env:
    """Everything that depends on (scan shape, construction mask, aberrations, rotation) only."""

    def __init__(self, shape, maskname, abername, rot, seed):
        self.shape, self.maskname, self.abername, self.rot, self.seed = tuple(shape), maskname, abername, float(rot), seed
        self.abers = ABERS[abername]
        self.m8, self.pix = det_mask(maskname)
        self.x = make_stack(seed, shape, maskname, 0)
        self.y = make_stack(seed, shape, maskname, 1)
        self.z = (2.0 * self.x.astype(np.float64) - 3.0 * self.y.astype(np.float64)).astype(np.float32)
        if not np.array_equal(self.z.astype(np.float64), 2.0 * self.x.astype(np.float64) - 3.0 * self.y.astype(np.float64)):
            raise Broken("2x-3y is not exactly representable in float32: the seeded stacks are not dyadic")
        self.A = self.fresh()
        self.Y = build(self.y, maskname, self.abers, self.rot, seed)
        self.Z = build(self.z, maskname, self.abers, self.rot, seed)
        self.g = tuple(int(v) for v in self.A.bf_mask.shape)
        libmask = self.A.bf_mask.detach().cpu().numpy().astype(bool)
        self.subs = {s: sub_indices(self.pix, s) for s in SUBMASKS}
        self.arrays = {s: sub_array(self.pix, self.subs[s], self.g) for s in SUBMASKS}
        if not np.array_equal(libmask, self.arrays["full"]) or int(self.A.num_bf) != len(self.pix):
            raise Broken(f"the library's cropped construction mask {libmask.shape} is not the corner-centred disc this check builds ({maskname})")
        self.wmap_own = own_weight_map(self.g, maskname, self.rot)
        wl = lib_weight_map(self.A, self.abers, self.rot)
        self.w_from_lib = wl is not None and wl.shape == self.wmap_own.shape
        self.wmap = wl if self.w_from_lib else self.wmap_own
        self.W = {s: float(self.wmap[self.arrays[s]].sum()) for s in SUBMASKS}
        self.W_own = {s: float(self.wmap_own[self.arrays[s]].sum()) for s in SUBMASKS}

    def fresh(self, stack=None):
        return build(self.x if stack is None else stack, self.maskname, self.abers, self.rot, self.seed)

    def point(self, kv, up, filt, sub=None, **more):
        d = {"shape": list(self.shape), "mask": self.maskname, "aber": self.abername, "rot": self.rot, "kernel": kv[0], "flip": kv[1], "up": up, "filter": filt}
        if sub is not None:
            d["sub"] = sub
        d.update(more)
        return d


def kclass(kv):
    return {"kernel": kv[0], "passes": "single" if kv[0] in SINGLE_PASS else "two"}


def check_point(t, env, kv, up, filt, sub):
    """All per-point relations at one lattice point. Returns (corrected_bf of the fresh reference, reference stack)."""
    try:
        return _check_point(t, env, kv, up, filt, sub)
    except ReconError as ex:
        pt = env.point(kv, up, filt, sub)
        t.case(key=["raised", pt], nontrivial=True)
        t.fail({"relation": "reconstruct_raised", "exception": type(ex.__cause__).__name__, **kclass(kv)}, dict(pt, kind="point"), f"{ex} at {pt}")
        return None, None


def _check_point(t, env, kv, up, filt, sub):
    idx = env.subs[sub]
    n = len(idx)
    arr = env.arrays[sub] if sub != "full" else None  # the full mask goes through the default path (bf_mask=None)
    pt = env.point(kv, up, filt, sub)
    F = env.fresh()
    ref = recon(F, kv, up, filt, arr, None)
    bf = F.corrected_bf.detach().cpu().numpy().astype(np.float64)
    scale = float(np.max(np.abs(ref))) if np.all(np.isfinite(ref)) else float("nan")
    nz = bool(scale > 0)
    t.case(key=["point", pt], nontrivial=nz, outcome=[round(scale, 7), round(float(np.sum(ref, dtype=np.float64)), 6), list(ref.shape)])
    want_shape = (n, env.shape[0] * up, env.shape[1] * up)
    if ref.shape != want_shape or not np.all(np.isfinite(ref)):
        t.fail({"relation": "finite_result_of_expected_shape", **kclass(kv)}, dict(pt, kind="point"), f"corrected_stack shape {ref.shape} (expected {want_shape}), finite={bool(np.all(np.isfinite(ref)))} at {pt}")
        return bf, ref
    if sub == "full":  # passing the construction mask explicitly == the default path
        o = recon(F, kv, up, filt, env.arrays["full"], None)
        t.case(key=["explicit_full_mask", pt], nontrivial=nz)
        if not np.array_equal(o, ref):
            t.fail({"relation": "explicit_full_mask_equals_default", **kclass(kv)}, dict(pt, kind="point"), f"reconstruct(bf_mask=<construction mask>) differs from reconstruct() by {relerr(o, ref):.3e} at {pt}")

    # (5a) two fresh objects, bit for bit
    if sub in ("full", "cb1", "one"):
        o = recon(env.fresh(), kv, up, filt, arr, None)
        t.case(key=["fresh_fresh", pt], nontrivial=nz)
        if not np.array_equal(o, ref):
            t.fail({"relation": "two_fresh_objects_bit_identical", **kclass(kv)}, dict(pt, kind="point"), f"two fresh objects differ by {relerr(o, ref):.3e} of max at {pt}")

    # (1) the schedule dimension, completely: every batch size 1..n on the long-lived object
    for b in range(1, n + 1):
        o = recon(env.A, kv, up, filt, arr, b)
        e = relerr(o, ref)
        t.case(key=["batch", pt, b], nontrivial=nz and b < n)
        t.stat("batch_rel_err_" + kv[0], e)
        if not e <= TOL_BATCH:
            t.fail({"relation": "batch_invariance", **kclass(kv)}, dict(pt, kind="point", batch=b), f"max_batch_size={b} of num_bf={n} differs from one batch by {e:.3e} of max (tol {TOL_BATCH}) at {pt}")

    # (5b) an unrelated reconstruction in between, then the original settings again: bit-identical with the fresh object
    k2 = KVARIANTS[(KVARIANTS.index(tuple(kv)) + 1 + SUBMASKS.index(sub)) % len(KVARIANTS)]
    recon(env.A, k2, 1 + up % 3, "low" if filt != "low" else "high", env.arrays["cb0" if sub != "cb0" else "q0"], 2, override_aberration_coefs={"C10": 55.0, "C12": -9.0}, override_rotation_angle=0.11)
    o = recon(env.A, kv, up, filt, arr, None)
    t.case(key=["history", pt], nontrivial=nz)
    if not np.array_equal(o, ref):
        t.fail({"relation": "no_hidden_state", **kclass(kv)}, dict(pt, kind="point"), f"object with a history (all batch sizes, other sub-masks/filters, one unrelated reconstruct with {k2[0]} and override aberrations) differs from a fresh object by {relerr(o, ref):.3e} of max at {pt}")

    # (1b) every alias string == canonical name, exactly
    table, _ = alias_table()
    names = list(table[kv[0]])
    if sub == "full":
        names += [a.upper() for a in [kv[0]] + table[kv[0]]]
    for alias in names:
        try:
            o = recon(env.A, kv, up, filt, arr, None, alias=alias)
        except ReconError as ex:
            if isinstance(ex.__cause__, ValueError) and "nknown deconvolution kernel" in str(ex.__cause__):
                t.extra["alias_strings_rejected_by_library"] += 1
                continue
            raise
        t.case(key=["alias", pt, alias], nontrivial=nz)
        t.extra["alias_evaluations"] += 1
        if not np.array_equal(o, ref):
            t.fail({"relation": "alias_equals_canonical", "kernel": kv[0], "alias": alias.lower()}, dict(pt, kind="point", alias=alias), f"deconvolution_kernel={alias!r} differs from {kv[0]!r} by {relerr(o, ref):.3e} of max at {pt}")

    # (2) linearity on the seeded pair
    ry = recon(env.Y, kv, up, filt, arr, None)
    rz = recon(env.Z, kv, up, filt, arr, None)
    want = 2.0 * ref.astype(np.float64) - 3.0 * ry.astype(np.float64)
    e = relerr(rz, want)
    t.case(key=["linearity_pair", pt], nontrivial=bool(np.any(want != 0)))
    t.stat("linearity_pair_rel_err", e)
    if not e <= TOL_LIN:
        t.fail({"relation": "linearity", **kclass(kv)}, dict(pt, kind="point"), f"R(2x-3y) differs from 2R(x)-3R(y) by {e:.3e} of max (tol {TOL_LIN}) at {pt}")

    # (4) analytic parallax
    if tuple(kv) == ("prlx", False) and filt == "none" and env.abername in ANALYTIC_ABERS:
        sh = geometric_shifts([env.pix[i] for i in idx], env.abers, env.rot)
        want = parallax_oracle(env.x[idx], sh, env.W[sub], up)
        e = relerr(ref, want)
        eb = relerr(bf, want.sum(0))
        t.case(key=["analytic", pt], nontrivial=True, outcome=[round(float(np.abs(want).max()), 7)])
        t.stat("analytic_rel_err_stack", e)
        t.stat("analytic_rel_err_sum", eb)
        t.extra["analytic_points"] += 1
        if not (e <= TOL_ANALYTIC and eb <= TOL_ANALYTIC):
            how = "sum of mean-subtracted images / W" if env.abername == "none" else "sum of images translated by +grad chi(k_i)/2pi / W"
            t.fail(
                {"relation": "parallax_analytic", "aberrations": "zero" if env.abername == "none" else "defocus_astigmatism", "upsampled": bool(up > 1), "sub_mask": bool(sub != "full")},
                dict(pt, kind="point"),
                f"parallax (no sign flipping) differs from {how} by {e:.3e} (stack) / {eb:.3e} (corrected_bf) of max (tol {TOL_ANALYTIC}); W={env.W[sub]:.6f}, num_bf={n}, at {pt}",
            )
    return bf, ref


def check_recombination(t, env, kv, up, filt, bfs):
    """(3) sum over a partition of W_sub R_sub == W_full R_full; verdict for single-pass kernels, control for two-pass."""
    full = env.W["full"] * bfs["full"]
    s = float(np.max(np.abs(full)))
    for pname, parts in PARTITIONS.items():
        got = sum(env.W[p] * bfs[p] for p in parts)
        pt = env.point(kv, up, filt, partition=pname)
        e = relerr(got, full)
        single = kv[0] in SINGLE_PASS
        t.case(key=["recombination", pt], nontrivial=bool(s > 0))
        if single:
            t.stat("recombination_rel_err_single_pass", e)
            if not e <= TOL_RECOMB:
                t.fail(
                    {"relation": "submask_recombination", "kernel": kv[0], "partition": pname},
                    dict(pt, kind="setting"),
                    f"sum over {parts} of W_sub*R_sub differs from W_full*R_full by {e:.3e} of max (tol {TOL_RECOMB}); W={[round(env.W[p], 6) for p in parts]} W_full={env.W['full']:.6f} at {pt}",
                )
        elif s > 0:
            t.extra[f"control_points_{kv[0]}"] += 1
            if e > CONTROL_MIN:
                t.extra[f"control_violations_{kv[0]}"] += 1
            t.stat(f"neg_min_control_residual_{kv[0]}", -e)


REF_KERNEL = ("prlx", False)


def check_filter(t, env, kv, up, filt, stack_filt):
    """(6) the filter envelope is the same function of q for every kernel (reference: parallax without flipping)."""
    if filt == "none" or tuple(kv) == REF_KERNEL:
        return
    F = env.fresh()  # a fresh object, so that a hidden-state defect is reported by its own relation and not here
    k0 = recon(F, kv, up, "none", None, None).astype(np.float64)
    p0 = recon(F, REF_KERNEL, up, "none", None, None).astype(np.float64).sum(0)
    p1 = recon(F, REF_KERNEL, up, filt, None, None).astype(np.float64).sum(0)
    K1 = np.fft.fft2(np.asarray(stack_filt, np.float64))
    K0 = np.fft.fft2(k0)
    P0 = np.fft.fft2(p0)[None]
    P1 = np.fft.fft2(p1)[None]
    lhs, rhs = K1 * P0, K0 * P1
    s = max(float(np.abs(lhs).max()), float(np.abs(rhs).max()))
    pt = env.point(kv, up, filt)
    e = float(np.abs(lhs - rhs).max()) / s if s > 0 else 0.0
    t.case(key=["filter_envelope", pt], nontrivial=bool(s > 0))
    t.stat("filter_envelope_rel_err", e)
    if not e <= TOL_FILTER:
        t.fail(
            {"relation": "filter_envelope_same_for_every_kernel", **kclass(kv)},
            dict(pt, kind="setting"),
            f"F[R_{kv[0]},filtered]*F[R_prlx,unfiltered] differs from F[R_{kv[0]},unfiltered]*F[R_prlx,filtered] by {e:.3e} of max (tol {TOL_FILTER}): the envelope of filter '{filt}' acts differently on {kv[0]} than on parallax, at {pt}",
        )


def check_override(t, env, kv, up, filt):
    """(5c) hyper-parameters passed to reconstruct(override_...) == the same hyper-parameters given at construction."""
    ref = recon(env.fresh(), kv, up, filt, None, None)
    plain = build(env.x, env.maskname, {}, 0.0, env.seed)
    o = recon(plain, kv, up, filt, None, 3, override_aberration_coefs=dict(env.abers), override_rotation_angle=env.rot)
    e = relerr(o, ref)
    pt = env.point(kv, up, filt)
    t.case(key=["override", pt], nontrivial=bool(np.any(ref != 0)))
    t.stat("override_rel_err", e)
    if not e <= TOL_OVERRIDE:
        t.fail({"relation": "override_equals_constructor_hyperparameters", **kclass(kv)}, dict(pt, kind="setting"), f"reconstruct(override_aberration_coefs, override_rotation_angle) differs from the same values given at construction by {e:.3e} at {pt}")


def run_setting(t, env, kv, up, filt):
    bfs, full_stack = {}, None
    for sub in SUBMASKS:
        bf, ref = check_point(t, env, kv, up, filt, sub)
        bfs[sub] = bf
        if sub == "full":
            full_stack = ref
    try:
        if all(b is not None and b.shape == bfs["full"].shape and np.all(np.isfinite(b)) for b in bfs.values()):
            check_recombination(t, env, kv, up, filt, bfs)
            check_filter(t, env, kv, up, filt, full_stack)
        check_override(t, env, kv, up, filt)
    except ReconError as ex:
        pt = env.point(kv, up, filt)
        t.fail({"relation": "reconstruct_raised", "exception": type(ex.__cause__).__name__, **kclass(kv)}, dict(pt, kind="setting"), f"{ex} at {pt}")


# ----------------------------------------------------------------------------- workers
def w_lattice(item, seed=0, filters=("none",)):
    shape, maskname, abername, rot, kvi, up = item
    t = Tally()
    env = Env(shape, maskname, abername, rot, seed)
    kv = KVARIANTS[kvi]
    for filt in filters:
        run_setting(t, env, kv, up, filt)
    if not env.w_from_lib:
        t.extra["weight_seam_missing"] += 1
    t.stat("aperture_weight_own_vs_library_rel", max(abs(env.W[s] - env.W_own[s]) / env.W_own[s] for s in SUBMASKS))
    t.extra["settings"] += len(filters)
    t.sample({"point": env.point(kv, up, filters[0], "full"), "num_bf": len(env.pix), "W_full": round(env.W["full"], 6), "batch_sizes": list(range(1, len(env.pix) + 1)) + [None]}, cap=1)
    return t


def basis_config(t, env, kv, up, filt, resp=None):
    """(2) on the complete delta basis: R(x) == sum_j x_j R(e_j) for the seeded stacks x, y and 2x-3y."""
    n, (R, C) = len(env.pix), env.shape
    pt = env.point(kv, up, filt)
    if resp is None:
        resp = np.zeros((n * R * C, n, R * up, C * up), np.float32)
        for j in range(n * R * C):
            e = np.zeros((n, R, C), np.float32)
            e.reshape(-1)[j] = 1.0
            resp[j] = recon(env.fresh(e), kv, up, filt, None, None)
    M = resp.reshape(n * R * C, -1).astype(np.float64)
    nzcols = int(np.count_nonzero(np.abs(M).max(axis=1)))
    worst = 0.0
    for name, stack, dp in (("x", env.x, env.A), ("y", env.y, env.Y), ("2x-3y", env.z, env.Z)):
        got = recon(dp, kv, up, filt, None, None).astype(np.float64).reshape(-1)
        want = stack.astype(np.float64).reshape(-1) @ M
        e = relerr(got, want)
        worst = max(worst, e)
        t.case(key=["basis_linearity", pt, name], nontrivial=bool(np.any(want != 0)), outcome=[round(float(np.abs(want).max()), 7)])
        t.stat("basis_linearity_rel_err", e)
        if not e <= TOL_BASIS:
            t.fail({"relation": "linearity_delta_basis", **kclass(kv)}, dict(pt, kind="basis", stack=name), f"R({name}) differs from sum_j {name}_j R(e_j) over the {n * R * C} delta stacks by {e:.3e} of max (tol {TOL_BASIS}) at {pt}")
    t.extra["basis_vectors_reconstructed"] += n * R * C
    t.extra["basis_configs"] += 1
    # a basis response is non-zero unless the kernel annihilates that image (icom at k=0, flip with chi=0): guard against an all-zero operator
    if nzcols == 0 and not (tuple(kv) == ("prlx", True) and env.abername == "none"):
        t.fail({"relation": "finite_result_of_expected_shape", **kclass(kv)}, dict(pt, kind="basis", stack="x"), f"every delta stack reconstructs to zero at {pt}")
    return worst


def w_basis(item, seed=0, filters=("none",)):
    maskname, abername, rot, kvi, up_ = item
    ups = (up_,)
    t = Tally()
    env = Env(SHAPES[0], maskname, abername, rot, seed)
    kv = KVARIANTS[kvi]
    n, (R, C) = len(env.pix), env.shape
    # one fresh object per basis vector, reused for every (upsampling, filter) of this item
    resp = {(up, f): np.zeros((n * R * C, n, R * up, C * up), np.float32) for up in ups for f in filters}
    try:
        for j in range(n * R * C):
            e = np.zeros((n, R, C), np.float32)
            e.reshape(-1)[j] = 1.0
            dp = env.fresh(e)
            for up in ups:
                for f in filters:
                    resp[(up, f)][j] = recon(dp, kv, up, f, None, None)
        for up in ups:
            for f in filters:
                basis_config(t, env, kv, up, f, resp=resp[(up, f)])
    except ReconError as ex:
        pt = env.point(kv, ups[0], filters[0])
        t.case(key=["raised", pt], nontrivial=True)
        t.fail({"relation": "reconstruct_raised", "exception": type(ex.__cause__).__name__, **kclass(kv)}, dict(pt, kind="basis", stack="x"), f"{ex} (delta basis) at {pt}")
    t.sample({"basis": env.point(kv, ups[0], filters[0]), "delta_stacks": n * R * C}, cap=1)
    return t


# ----------------------------------------------------------------------------- (7) spellings of mask-like / index-like arguments
# One sub-mask, many ways to hand it over. Every spelling the library accepts must give the result of the canonical
# torch.bool tensor (and therefore satisfy the same oracles); a spelling the library rejects (raises) is counted per
# spelling, never a failure. The second element says whether the spelling is built from the complement by arithmetic.
MASK_SPELLINGS = [
    "t_uint8", "t_int16", "t_int32", "t_int64", "t_float32", "t_float64",
    "np_bool", "np_uint8", "np_int64", "np_float64",
    "list_bool", "list_int", "tuple_int",
    "t_bool_transposed_view", "t_int64_transposed_view", "t_bool_strided_view", "t_int32_strided_view",
    "np_bool_fortran", "np_int64_strided_view",
    "compl_t_int32", "compl_t_int64", "compl_t_float32", "compl_np_int64",
]  # fmt: skip
SPELL_TARGETS = {"cb1": "cb0", "rest": "one", "not_q0": "q0", "one": None, "full": None}  # target -> the named sub-mask it complements
INDEX_SPELLINGS = {
    "max_batch_size": ["np_int64", "np_int32", "t_int64", "float", "np_float64"],
    "upsampling_factor": ["np_int64", "t_int64", "float", "np_float32"],
}
TOL_SPELL = 3e-5  # accepted spellings are bit-identical on the current tree (observed 0); seeded defect (integer gather indexing): 0.8-1.0


def spell_mask(name, arr, full):
    """The boolean sub-mask `arr` (NumPy, corner-centred) written as `name`; `full` is the construction mask."""
    torch = _lib()[0]
    tb = torch.as_tensor(arr.copy())
    tf = torch.as_tensor(full.copy())
    other = tf & ~tb  # complement of the target inside the construction mask
    big = np.zeros((2 * arr.shape[0], 2 * arr.shape[1]), dtype=bool)
    big[::2, ::2] = arr
    if name == "t_bool":
        return tb
    if name in ("t_uint8", "t_int16", "t_int32", "t_int64", "t_float32", "t_float64"):
        return tb.to(getattr(torch, name[2:]))
    if name in ("np_bool", "np_uint8", "np_int64", "np_float64"):
        return arr.astype(getattr(np, name[3:] if name != "np_bool" else "bool_"))
    if name == "list_bool":
        return arr.tolist()
    if name == "list_int":
        return arr.astype(int).tolist()
    if name == "tuple_int":
        return tuple(tuple(int(v) for v in row) for row in arr)
    if name == "t_bool_transposed_view":
        return torch.as_tensor(arr.T.copy()).T
    if name == "t_int64_transposed_view":
        return torch.as_tensor(arr.T.copy()).long().T
    if name == "t_bool_strided_view":
        return torch.as_tensor(big.copy())[::2, ::2]
    if name == "t_int32_strided_view":
        return torch.as_tensor(big.copy()).int()[::2, ::2]
    if name == "np_bool_fortran":
        return np.asfortranarray(arr)
    if name == "np_int64_strided_view":
        return big.astype(np.int64)[::2, ::2]
    if name == "compl_t_int32":
        return tf.int() - other.int()
    if name == "compl_t_int64":
        return tf.long() - other.long()
    if name == "compl_t_float32":
        return tf.float() - other.float()
    if name == "compl_np_int64":
        return full.astype(np.int64) - other.numpy().astype(np.int64)
    raise ValueError(name)


def _as_bool_array(obj):
    torch = _lib()[0]
    if isinstance(obj, torch.Tensor):
        return obj.detach().cpu().numpy().astype(bool)
    return np.asarray(obj).astype(bool)


def target_array(env, target):
    if target == "not_q0":
        return env.arrays["full"] & ~env.arrays["q0"]
    return env.arrays[target]


def spelling_point(t, env, kv, up, target, spelling, b, cache=None):
    """One (target mask, spelling, batch size): differential against the canonical bool tensor + the existing oracles."""
    cache = {} if cache is None else cache
    arr = target_array(env, target)
    full = env.arrays["full"]
    pt = env.point(kv, up, "none", target, spelling=spelling, batch=b)
    case = dict(pt, kind="mask_spelling")
    if ("ref", target, b) not in cache:
        cache[("ref", target, b)] = recon(env.A, kv, up, "none", None, b, bf_mask=spell_mask("t_bool", arr, full))
    ref = cache[("ref", target, b)]
    obj = spell_mask(spelling, arr, full)
    if not np.array_equal(_as_bool_array(obj), arr):
        raise Broken(f"mask spelling {spelling} does not describe the target mask {target}")
    try:
        got = recon(env.A, kv, up, "none", None, b, bf_mask=obj)
    except ReconError as ex:
        t.extra["mask_spelling_rejected__" + spelling] += 1
        t.case(key=["mask_spelling_rejected", pt], nontrivial=False)
        t.sample({"rejected_mask_spelling": spelling, "exception": f"{type(ex.__cause__).__name__}: {ex.__cause__}"[:160]}, cap=1)
        return
    t.extra["mask_spelling_accepted__" + spelling] += 1
    nz = bool(np.any(ref != 0))
    cls = {"spelling": spelling, **kclass(kv)}
    e = relerr(got, ref)
    t.case(key=["mask_spelling", pt], nontrivial=nz, outcome=[round(float(np.abs(ref).max()), 7)])
    t.stat("mask_spelling_rel_err", e)
    if not e <= TOL_SPELL:
        t.fail({"relation": "mask_spelling_equals_bool_tensor", **cls}, case, f"bf_mask given as {spelling} ({type(obj).__name__}, {getattr(obj, 'dtype', 'nested')}) differs from the same mask as a torch.bool tensor by {e:.3e} of max (tol {TOL_SPELL}); num_bf={int(arr.sum())} at {pt}")
    if not np.array_equal(_as_bool_array(obj), arr):
        t.fail({"relation": "mask_argument_not_mutated", **cls}, case, f"reconstruct modified the bf_mask object it was given ({spelling}) at {pt}")
    # the existing oracles, applied to the spelled call itself
    comp = SPELL_TARGETS[target]
    if comp is not None and kv[0] in SINGLE_PASS and got.shape == ref.shape and np.all(np.isfinite(got)):
        Wc = env.W[comp]
        Wt = float(env.wmap[arr].sum())
        if ("bf", comp, b) not in cache:
            cache[("bf", comp, b)] = recon(env.A, kv, up, "none", env.arrays[comp], b).astype(np.float64).sum(0)
        if ("bf", "full", b) not in cache:
            cache[("bf", "full", b)] = recon(env.A, kv, up, "none", None, b).astype(np.float64).sum(0)
        ra, rf = cache[("bf", comp, b)], cache[("bf", "full", b)]
        e2 = relerr(Wc * ra + Wt * got.astype(np.float64).sum(0), env.W["full"] * rf)
        t.case(key=["mask_spelling_recombination", pt], nontrivial=bool(np.any(rf != 0)))
        t.stat("mask_spelling_recombination_rel_err", e2)
        if not e2 <= TOL_RECOMB:
            t.fail({"relation": "submask_recombination_spelled_complement", **cls}, case, f"W*R of {comp} + W*R of its complement given as {spelling} differs from W_full*R_full by {e2:.3e} of max (tol {TOL_RECOMB}); W={Wc:.6f}+{Wt:.6f} at {pt}")
    if tuple(kv) == ("prlx", False) and env.abername in ANALYTIC_ABERS and got.shape == ref.shape:
        idx = [i for i, (a_, b_) in enumerate(env.pix) if arr[a_ % env.g[0], b_ % env.g[1]]]
        want = parallax_oracle(env.x[idx], geometric_shifts([env.pix[i] for i in idx], env.abers, env.rot), float(env.wmap[arr].sum()), up)
        e3 = relerr(got, want)
        t.case(key=["mask_spelling_analytic", pt], nontrivial=True)
        t.stat("mask_spelling_analytic_rel_err", e3)
        if not e3 <= TOL_ANALYTIC:
            t.fail({"relation": "parallax_analytic_spelled_mask", "spelling": spelling}, case, f"parallax closed form with bf_mask given as {spelling}: differs by {e3:.3e} of max (tol {TOL_ANALYTIC}) at {pt}")


def _index_value(how, v):
    torch = _lib()[0]
    return {"np_int64": np.int64(v), "np_int32": np.int32(v), "t_int64": torch.tensor(int(v)), "float": float(v), "np_float64": np.float64(v), "np_float32": np.float32(v)}[how]


def index_spelling_point(t, env, kv, up, arg, how):
    pt = env.point(kv, up, "none", "full", argument=arg, spelling=how)
    case = dict(pt, kind="index_spelling")
    plain = {"max_batch_size": 2, "upsampling_factor": up}
    ref = recon(env.A, kv, up, "none", None, 2)
    try:
        got = recon(env.A, kv, up, "none", None, 2, **{arg: _index_value(how, plain[arg])})
    except ReconError:
        t.extra[f"index_spelling_rejected__{arg}__{how}"] += 1
        t.case(key=["index_spelling_rejected", pt], nontrivial=False)
        return
    t.extra[f"index_spelling_accepted__{arg}__{how}"] += 1
    e = relerr(got, ref)
    t.case(key=["index_spelling", pt], nontrivial=bool(np.any(ref != 0)))
    t.stat("index_spelling_rel_err", e)
    if not e <= TOL_SPELL:
        t.fail({"relation": "index_spelling_equals_int", "argument": arg, "spelling": how, **kclass(kv)}, case, f"{arg}={_index_value(how, plain[arg])!r} ({how}) differs from the plain int {plain[arg]} by {e:.3e} of max at {pt}")


CTOR_MASK_SPELLINGS = ["np_uint8", "np_int64", "np_float64", "np_float32", "np_bool_fortran"]


def ctor_mask_point(t, env, kv, up, how):
    """The construction mask (Dataset2d) in another dtype / memory layout == the boolean construction mask."""
    torch, Dataset2d, Dataset3d, DP = _lib()
    pt = env.point(kv, up, "none", "cb1", constructor_mask=how)
    case = dict(pt, kind="ctor_mask_spelling")
    m = np.asfortranarray(env.m8) if how == "np_bool_fortran" else env.m8.astype(getattr(np, how[3:]))
    try:
        with warnings.catch_warnings():
            warnings.simplefilter("ignore")
            vd = Dataset3d.from_array(env.x.copy(), units=("index", "A", "A"), sampling=(1,) + SCAN_SAMPLING)
            md = Dataset2d.from_array(m, units=("mrad", "mrad"), sampling=(DK_MRAD, DK_MRAD))
            dp = DP.from_virtual_bfs(vd, md, energy=ENERGY, rotation_angle=env.rot, aberration_coefs=dict(env.abers), semiangle_cutoff=MASKS[env.maskname], verbose=0, crop_bf_mask=True, rng=int(env.seed) % (2**31))
    except Exception:
        t.extra["ctor_mask_spelling_rejected__" + how] += 1
        t.case(key=["ctor_mask_rejected", pt], nontrivial=False)
        return
    t.extra["ctor_mask_spelling_accepted__" + how] += 1
    for sub in ("full", "cb1"):
        arr = None if sub == "full" else env.arrays[sub]
        ref = recon(env.A, kv, up, "none", arr, 2)
        got = recon(dp, kv, up, "none", arr, 2)
        e = relerr(got, ref)
        t.case(key=["ctor_mask_spelling", pt, sub], nontrivial=bool(np.any(ref != 0)))
        t.stat("ctor_mask_spelling_rel_err", e)
        if not e <= TOL_SPELL:
            t.fail({"relation": "constructor_mask_spelling_equals_bool", "spelling": how, **kclass(kv)}, dict(case, sub=sub), f"construction mask given as {how} differs from the boolean construction mask by {e:.3e} of max (sub-mask {sub}) at {pt}")


def w_mask_spell(item, seed=0):
    shape, maskname, abername, rot, kvi, up = item
    t = Tally()
    env = Env(shape, maskname, abername, rot, seed)
    kv = KVARIANTS[kvi]
    cache = {}
    try:
        for target in SPELL_TARGETS:
            for spelling in MASK_SPELLINGS:
                for b in (None, 2):
                    spelling_point(t, env, kv, up, target, spelling, b, cache)
        for arg, hows in INDEX_SPELLINGS.items():
            for how in hows:
                index_spelling_point(t, env, kv, up, arg, how)
        for how in CTOR_MASK_SPELLINGS:
            ctor_mask_point(t, env, kv, up, how)
    except ReconError as ex:  # the canonical spelling itself raised
        pt = env.point(kv, up, "none")
        t.fail({"relation": "reconstruct_raised", "exception": type(ex.__cause__).__name__, **kclass(kv)}, dict(pt, kind="setting"), f"{ex} at {pt}")
    t.extra["mask_spelling_items"] += 1
    return t


# ----------------------------------------------------------------------------- (8) aberration spelling x source precedence
# Every coefficient that has an alias name, given in the constructor (none / canonical / alias), in the optimized state
# (none / through the public searches, canonical / alias) and as a reconstruct override (none / canonical / alias, also
# override to 0.0), must give the result of the equivalent all-canonical object: override > optimized > initial,
# regardless of spelling.
KNOWN_ABER_ALIASES = {"defocus": "C10", "astigmatism": "C12", "astigmatism_angle": "phi12", "coma": "C21", "coma_angle": "phi21", "Cs": "C30", "C5": "C50"}
# per canonical coefficient: (value in the constructor, value in the optimized state, value of the override)
ABER_VALUES = {
    "C10": (-120.0, 60.0, -45.0), "C12": (25.0, 40.0, 12.0), "phi12": (0.4, -0.3, 0.9), "C21": (3000.0, -2000.0, 1500.0),
    "phi21": (-0.7, 0.5, 1.1), "C30": (2.0e5, -1.0e5, 3.0e5), "C50": (1.0e9, -5.0e8, 2.0e9),
}  # fmt: skip
LOW_CONTEXT = {"C10": -120.0, "C12": 25.0, "phi12": 0.4}  # closed form (4) applies
HIGH_CONTEXT = {"C10": -120.0, "C12": 25.0, "phi12": 0.4, "C21": 3000.0, "phi21": -0.7, "C30": 2.0e5, "C50": 1.0e9}
CTOR_KINDS = ["none", "canonical", "alias"]
OPT_KINDS = ["none", "grid_canonical", "grid_alias", "fixed_canonical", "fixed_alias", "optuna_canonical", "optuna_alias"]
OVER_KINDS = ["none", "canonical", "alias", "canonical_zero", "alias_zero"]
ONE_DICT_KINDS = ["equal_canonical_first", "equal_alias_first", "conflict_canonical_first", "conflict_alias_first"]
_PAIR_CACHE = {}


def aber_pairs():
    """[(alias, canonical, sign)] from the library's alias table (complex_probe.POLAR_ALIASES), else the known table.
    'defocus' is the one alias with the opposite sign (defocus = -C10, documented)."""
    if "p" not in _PAIR_CACHE:
        table, src = dict(KNOWN_ABER_ALIASES), "known table"
        try:
            import quantem.diffractive_imaging.complex_probe as CP

            lib = dict(getattr(CP, "POLAR_ALIASES"))
            if lib:
                table, src = lib, "complex_probe.POLAR_ALIASES"
        except Exception:
            pass
        pairs = [(a, c, -1.0 if a == "defocus" else 1.0) for a, c in table.items() if c in ABER_VALUES]
        _PAIR_CACHE["p"] = (pairs, src, sorted(a for a, c in table.items() if c not in ABER_VALUES))
    return _PAIR_CACHE["p"]


def spelled(pair, value, how):
    alias, canon, sign = pair
    return {canon: float(value)} if "canonical" in how else {alias: sign * float(value)}


def context_for(pair):
    ctx_ = LOW_CONTEXT if pair[1] in LOW_CONTEXT else HIGH_CONTEXT
    return {k: v for k, v in ctx_.items() if k != pair[1]}


class AberBase:
    """(scan shape, construction mask, rotation): the stack and the weight map for the precedence family."""

    def __init__(self, shape, maskname, rot, seed):
        self.env = Env(shape, maskname, "none", rot, seed)
        self.refs = {}

    def reference(self, kv, up, b, eff):
        """All-canonical equivalent: a fresh object built with the effective canonical dictionary, no override."""
        key = (tuple(kv), up, b, tuple(sorted(eff.items())))
        if key not in self.refs:
            e = self.env
            self.refs[key] = recon(build(e.x, e.maskname, eff, e.rot, e.seed), kv, up, "none", None, b)
        return self.refs[key]


def _search(dp, how, spec, kw):
    """Put a value into the optimized state through a public search; deterministic (one grid point / low == high)."""
    from quantem.diffractive_imaging.direct_ptychography import OptimizationParameter

    (name, val), = spec.items()
    with warnings.catch_warnings():
        warnings.simplefilter("ignore")
        if how.startswith("grid"):
            dp.grid_search_hyperparameters(aberration_coefs={name: OptimizationParameter(val, val, n_points=1)}, verbose=False, **kw)
        elif how.startswith("fixed"):
            dp.grid_search_hyperparameters(aberration_coefs={name: val}, verbose=False, **kw)
        else:
            dp.optimize_hyperparameters(aberration_coefs={name: OptimizationParameter(val, val)}, n_trials=1, verbose=False, **kw)


def _recon_kwargs(kv, up, b):
    kw = dict(deconvolution_kernel=kv[0], upsampling_factor=up, max_batch_size=b)
    if kv[1] is not None:
        kw["parallax_flip_phase"] = kv[1]
    return kw


def _judge_aber(t, base, kv, up, b, pair, eff_value, got, cls, case, what):
    """Differential against the all-canonical object and, where it applies, the closed form (4)."""
    env = base.env
    ctx_ = context_for(pair)
    eff = dict(ctx_)
    if eff_value is not None:
        eff[pair[1]] = float(eff_value)
    ref = base.reference(kv, up, b, eff)
    e = relerr(got, ref)
    nz = bool(np.any(ref != 0))
    t.case(key=["aber_spelling", case], nontrivial=nz, outcome=[round(float(np.abs(ref).max()), 7)])
    t.stat("aberration_spelling_rel_err", e)
    ok = e <= TOL_OVERRIDE
    msg = ""
    if not ok:
        # which value did the library use? compare with the all-canonical result for every candidate value
        cands = {"absent": None, "zero": 0.0, "constructor value": ABER_VALUES[pair[1]][0], "optimized value": ABER_VALUES[pair[1]][1], "override value": ABER_VALUES[pair[1]][2]}
        used = []
        for nm, v in cands.items():
            d = dict(ctx_)
            if v is not None:
                d[pair[1]] = v
            if relerr(got, base.reference(kv, up, b, d)) <= TOL_OVERRIDE:
                used.append(f"{nm} ({pair[1]}={v})")
        msg = f"{what}: result differs from the all-canonical object with {pair[1]}={eff_value} by {e:.3e} of max (tol {TOL_OVERRIDE})" + (f"; it equals the result for the {' / '.join(used)}" if used else "") + f" at {case}"
        t.fail(dict(cls, judge="differential"), case, msg)
    if tuple(kv) == ("prlx", False) and not (set(eff) - set(LOW_CONTEXT)):
        want = parallax_oracle(env.x, geometric_shifts(env.pix, eff, env.rot), env.W["full"], up)
        e2 = relerr(got, want)
        t.case(key=["aber_spelling_analytic", case], nontrivial=True)
        t.stat("aberration_spelling_analytic_rel_err", e2)
        t.extra["aberration_spelling_closed_form_points"] += 1
        if not e2 <= TOL_ANALYTIC:
            t.fail(dict(cls, judge="closed_form"), case, f"{what}: parallax (no sign flipping) differs from the sum of images translated by grad chi/2pi for {eff} by {e2:.3e} of max (tol {TOL_ANALYTIC}) at {case}")


def aber_combo(t, base, kv, up, pair, ctor, opt, over):
    """One (constructor spelling, optimized-state route, override spelling) combination for one coefficient."""
    env = base.env
    alias, canon, sign = pair
    v_init, v_opt, v_over = ABER_VALUES[canon]
    b = 2 if opt != "none" else None
    case = dict(env.point(kv, up, "none"), kind="aber_spelling", coef=canon, alias=alias, ctor=ctor, opt=opt, over=over)
    del case["aber"]
    cdict = dict(context_for(pair))
    if ctor != "none":
        cdict.update(spelled(pair, v_init, ctor))
    dp = build(env.x, env.maskname, cdict, env.rot, env.seed)
    kw = _recon_kwargs(kv, up, b)
    try:
        if opt != "none":
            try:
                _search(dp, opt, spelled(pair, v_opt, opt), kw)
            except Exception as ex:
                t.extra["aberration_search_route_rejected__" + opt] += 1
                t.case(key=["aber_search_rejected", case], nontrivial=False)
                t.sample({"rejected_search_route": opt, "exception": f"{type(ex).__name__}: {ex}"[:160]}, cap=1)
                return
        okw = {}
        if over != "none":
            okw["override_aberration_coefs"] = spelled(pair, 0.0 if over.endswith("zero") else v_over, over)
        got = recon(dp, kv, up, "none", None, b, **okw)
    except ReconError as ex:
        t.fail({"relation": "reconstruct_raised", "exception": type(ex.__cause__).__name__, **kclass(kv)}, case, f"{ex} at {case}")
        return
    eff = (0.0 if over.endswith("zero") else v_over) if over != "none" else v_opt if opt != "none" else v_init if ctor != "none" else None
    cls = {"relation": "aberration_spelling_source_precedence", "constructor": ctor, "optimized": opt.split("_")[-1], "override": over}
    _judge_aber(t, base, kv, up, b, pair, eff, got, cls, case, f"{canon}/{alias}: constructor={ctor}, optimized={opt}, override={over}")
    t.extra["aberration_spelling_combinations"] += 1


def aber_one_dict(t, base, kv, up, pair, where, how):
    """Both spellings of one coefficient in ONE dictionary. Equal values must equal the canonical spelling alone (a
    verdict). For CONFLICTING values the property states no order: which entry the library uses is only counted
    (coverage.conflicting_spellings_winner), never judged."""
    env = base.env
    alias, canon, sign = pair
    v1, v2 = ABER_VALUES[canon][0], ABER_VALUES[canon][2]
    va = v1 if how.startswith("equal") else v2
    ent_c, ent_a = (canon, float(v1)), (alias, sign * float(va))
    both = dict([ent_c, ent_a] if how.endswith("canonical_first") else [ent_a, ent_c])
    case = dict(env.point(kv, up, "none"), kind="aber_one_dict", coef=canon, alias=alias, where=where, how=how)
    del case["aber"]
    cdict = dict(context_for(pair))
    try:
        if where == "constructor":
            cdict.update(both)
            got = recon(build(env.x, env.maskname, cdict, env.rot, env.seed), kv, up, "none", None, None)
        else:
            cdict[canon] = ABER_VALUES[canon][1]
            got = recon(build(env.x, env.maskname, cdict, env.rot, env.seed), kv, up, "none", None, None, override_aberration_coefs=both)
    except ReconError as ex:
        t.fail({"relation": "reconstruct_raised", "exception": type(ex.__cause__).__name__, **kclass(kv)}, case, f"{ex} at {case}")
        return
    if how.startswith("equal"):
        _judge_aber(t, base, kv, up, None, pair, v1, got, {"relation": "aberration_both_spellings_equal_values", "where": where, "order": how.split("_", 1)[1]}, case, f"{canon} and {alias} in one {where} dictionary {both}")
        t.extra["aberration_one_dict_combinations"] += 1
        return
    # conflicting values: record which spelling / position the library used; no verdict
    ctx_ = context_for(pair)
    won = []
    for who, v in (("canonical", v1), ("alias", v2)):
        if relerr(got, base.reference(kv, up, None, dict(ctx_, **{canon: float(v)}))) <= TOL_OVERRIDE:
            won.append(who)
    first = "canonical" if how.endswith("canonical_first") else "alias"
    if len(won) == 1:
        label = f"{won[0]}_spelling__listed_{'first' if won[0] == first else 'last'}"
    else:
        label = "neither_value" if not won else "indistinguishable"
    t.case(key=["aber_conflict_counted", case], nontrivial=False)
    t.extra[f"conflict_winner__{canon}__{where}__{label}"] += 1


def w_aber_spell(item, seed=0, opts=tuple(OPT_KINDS)):
    shape, maskname, rot, kvi, up, pi = item
    t = Tally()
    base = AberBase(shape, maskname, rot, seed)
    kv = KVARIANTS[kvi]
    pair = aber_pairs()[0][pi]
    for ctor in CTOR_KINDS:
        for opt in opts:
            for over in OVER_KINDS:
                aber_combo(t, base, kv, up, pair, ctor, opt, over)
    for where in ("constructor", "override"):
        for how in ONE_DICT_KINDS:
            aber_one_dict(t, base, kv, up, pair, where, how)
    t.extra["aberration_spelling_items"] += 1
    return t


# ----------------------------------------------------------------------------- (9) rotation-angle boundary alphabet
_PI = math.pi
ROT_BOUNDARY = [
    ("0", 0.0), ("-0.0", -0.0), ("pi/2", _PI / 2), ("-pi/2", -_PI / 2), ("pi", _PI), ("-pi", -_PI), ("3pi/2", 1.5 * _PI),
    ("2pi", 2 * _PI), ("3pi", 3 * _PI), ("pi(1+1e-6)", _PI * (1 + 1e-6)), ("pi(1-1e-6)", _PI * (1 - 1e-6)),
    ("pi/2(1+1e-6)", _PI / 2 * (1 + 1e-6)), ("pi/2(1-1e-6)", _PI / 2 * (1 - 1e-6)),
]  # fmt: skip
QUARTER_TURNS = {"0": 0, "-0.0": 0, "pi/2": 1, "-pi/2": 3, "pi": 2, "-pi": 2, "3pi/2": 3, "2pi": 0, "3pi": 2}  # exact multiples of 90 degrees
SAME_GEOMETRY = {"-0.0": "0", "2pi": "0", "-pi": "pi", "3pi": "pi", "3pi/2": "-pi/2"}  # angle -> representative mod 2 pi
ROT_OTHER = 0.3  # construction angle of the object that receives override_rotation_angle
TOL_ROT = 1e-4  # exact grid symmetries / equal angles mod 2pi; observed <= 3.6e-6 (float32 rounding of k cos + k sin with sin ~ 1e-16); seeded snap defect: 2
# Continuity: the result at theta and at theta*(1+1e-6) differ by the true derivative times <= 9.4e-6 rad; observed on the
# current tree <= 2.7e-4 (parallax, upsampling 3, theta = 3pi) for obf / mf / prlx / icom; seeded snap defect: 2. ssb is NOT continuous in any
# parameter (it divides by |gamma|, i.e. keeps a pure phase that flips where gamma crosses zero: observed jumps up to 0.79
# on the current tree), so for ssb continuity is recorded, not judged; ssb is judged by the exact grid symmetry instead.
TOL_CONT = 1e-2


def quarter_turn_permutation(pix, n):
    """perm[p] = index of the mask pixel at R(90 deg)^n k_p (the disc masks are invariant under quarter turns)."""
    out = []
    for a, b in pix:
        for _ in range(n % 4):
            a, b = -b, a
        out.append(pix.index((a, b)))
    return out


def _rot_recon(env, kv, up, theta, source):
    if source == "constructor":
        return recon(build(env.x, env.maskname, env.abers, theta, env.seed), kv, up, "none", None, None)
    return recon(build(env.x, env.maskname, env.abers, ROT_OTHER, env.seed), kv, up, "none", None, None, override_rotation_angle=theta)


def rotation_point(t, env, kv, up, name, cache=None):
    """Everything about one rotation angle of the boundary alphabet (env is built at rotation 0)."""
    cache = {} if cache is None else cache
    theta = dict(ROT_BOUNDARY)[name]

    def get(nm, th, source):
        if (nm, source) not in cache:
            cache[(nm, source)] = _rot_recon(env, kv, up, th, source)
        return cache[(nm, source)]

    for source in ("constructor", "override"):
        pt = env.point(kv, up, "none", None, angle=name, source=source)
        del pt["rot"]
        case = dict(pt, kind="rotation")
        cls = {"angle": name, "kernel": kv[0]}  # the source (constructor / override) is in the case and the message
        got = get(name, theta, source)
        nz = bool(np.any(got != 0))
        t.case(key=["rotation", pt], nontrivial=nz, outcome=[round(float(np.abs(got).max()), 7)])
        # closed form (4) at this angle
        if tuple(kv) == ("prlx", False) and env.abername in ANALYTIC_ABERS:
            wm = lib_weight_map(env.A, env.abers, theta)
            W = float((wm if wm is not None else own_weight_map(env.g, env.maskname, theta))[env.arrays["full"]].sum())
            want = parallax_oracle(env.x, geometric_shifts(env.pix, env.abers, theta), W, up)
            e = relerr(got, want)
            t.case(key=["rotation_analytic", pt], nontrivial=True)
            t.stat("rotation_analytic_rel_err", e)
            t.extra["rotation_closed_form_points"] += 1
            if not e <= TOL_ANALYTIC:
                t.fail({"relation": "parallax_analytic_at_rotation_boundary", "angle": name}, case, f"rotation angle {name} ({theta!r} rad, {source}): parallax (no sign flipping) differs from the sum of images translated by +grad chi(R(theta) k_i)/2pi / W by {e:.3e} of max (tol {TOL_ANALYTIC}) at {pt}")
        # exact grid symmetry: a rotation by n quarter turns == rotation 0 with the images re-assigned to the rotated pixels
        if name in QUARTER_TURNS:
            n = QUARTER_TURNS[name]
            if ("sym", n) not in cache:
                perm = quarter_turn_permutation(env.pix, n)
                xp = np.zeros_like(env.x)
                xp[perm] = env.x
                cache[("sym", n)] = (perm, recon(build(xp, env.maskname, env.abers, 0.0, env.seed), kv, up, "none", None, None))
            perm, ref = cache[("sym", n)]
            e = relerr(got, ref[perm])
            t.case(key=["rotation_symmetry", pt], nontrivial=bool(nz and n))
            t.stat("rotation_symmetry_rel_err", e)
            if not e <= TOL_ROT:
                t.fail({"relation": "rotation_by_quarter_turns_equals_permuted_detector", **cls}, case, f"rotation angle {name} ({theta!r} rad, {source}) = {n} quarter turns: result differs from rotation 0 with every image re-assigned to the detector pixel at R(theta) k by {e:.3e} of max (tol {TOL_ROT}); for comparison it differs from the un-rotated result by {relerr(got, get('0', 0.0, 'constructor')):.3e}, at {pt}")
        # same geometry modulo 2 pi
        if name in SAME_GEOMETRY:
            rep = SAME_GEOMETRY[name]
            e = relerr(got, get(rep, dict(ROT_BOUNDARY)[rep], source))
            t.case(key=["rotation_mod_2pi", pt], nontrivial=nz)
            t.stat("rotation_mod_2pi_rel_err", e)
            if not e <= TOL_ROT:
                t.fail({"relation": "rotation_angle_equal_modulo_2pi", **cls}, case, f"rotation angle {name} differs from the same geometry {rep} by {e:.3e} of max (tol {TOL_ROT}) at {pt}")
        # continuity: theta and theta*(1+1e-6) are the same geometry to ~1e-5 rad
        nb = theta * (1 + 1e-6) if theta != 0 else 1e-6
        e = relerr(got, get(name + "*", nb, source))
        t.case(key=["rotation_continuity", pt], nontrivial=nz)
        if kv[0] == "ssb":
            t.stat("rotation_continuity_rel_diff_ssb_not_judged", e)
        else:
            t.stat("rotation_continuity_rel_diff", e)
            if not e <= TOL_CONT:
                t.fail({"relation": "continuous_in_rotation_angle", **cls}, case, f"rotation angle {name} ({theta!r} rad, {source}) and {nb!r} rad differ by {e:.3e} of max (tol {TOL_CONT}: the same geometry to 1e-5 rad) at {pt}")
    # given at construction == given as override
    pt = env.point(kv, up, "none", None, angle=name, source="constructor_vs_override")
    del pt["rot"]
    e = relerr(cache[(name, "override")], cache[(name, "constructor")])
    t.case(key=["rotation_override", pt], nontrivial=True)
    t.stat("rotation_override_rel_err", e)
    if not e <= TOL_OVERRIDE:
        t.fail({"relation": "override_rotation_equals_constructor_rotation", "angle": name, **kclass(kv)}, dict(pt, kind="rotation"), f"override_rotation_angle={name} differs from rotation_angle={name} at construction by {e:.3e} of max at {pt}")


def w_rotation(item, seed=0):
    shape, maskname, abername, kvi, up = item
    t = Tally()
    env = Env(shape, maskname, abername, 0.0, seed)
    kv = KVARIANTS[kvi]
    cache = {}
    for name, _ in ROT_BOUNDARY:
        try:
            rotation_point(t, env, kv, up, name, cache)
        except ReconError as ex:
            pt = env.point(kv, up, "none", None, angle=name)
            t.fail({"relation": "reconstruct_raised", "exception": type(ex.__cause__).__name__, **kclass(kv)}, dict(pt, kind="rotation", source="constructor"), f"{ex} at {pt}")
    t.extra["rotation_items"] += 1
    return t


# ----------------------------------------------------------------------------- (10) key-ORDER invariance of aberration dictionaries
ORDER_SETS = {
    "defocus+astig": ABERS["defocus+astig"],
    "defocus+astig+coma+Cs": ABERS["defocus+astig+coma+Cs"],
    "defocus+astig+coma+Cs+C5": HIGH_CONTEXT,
}
KEY_ORDERS = ["canonical", "reversed", "angles_first", "angle_before_its_magnitude"]
ORDER_SOURCES = ["constructor", "override", "angles_at_construction_magnitudes_as_override", "magnitudes_at_construction_angles_as_override", "first_half_at_construction_second_half_as_override"]


def ordered_items(d, order):
    keys = list(d)
    if order == "reversed":
        keys = keys[::-1]
    elif order == "angles_first":
        keys = [k for k in keys if k.startswith("phi")] + [k for k in keys if not k.startswith("phi")]
    elif order == "angle_before_its_magnitude":
        out = []
        for k in keys:
            if k.startswith("phi"):
                continue
            if "phi" + k[1:] in d:
                out.append("phi" + k[1:])
            out.append(k)
        keys = out
    return [(k, d[k]) for k in keys]


def respell_items(items, spelling):
    if spelling == "canonical":
        return list(items)
    by_canon = {c: (a, s) for a, c, s in aber_pairs()[0]}
    return [((by_canon[k][0], by_canon[k][1] * v) if k in by_canon else (k, v)) for k, v in items]


def key_order_point(t, base, kv, up, setname, spelling, order, source):
    env = base.env
    canon = ORDER_SETS[setname]
    items = ordered_items(canon, order)
    is_angle = [k.startswith("phi") for k, _ in items]
    sp = respell_items(items, spelling)
    if source == "constructor":
        ctor, over = sp, None
    elif source == "override":
        ctor, over = [], sp
    elif source == "angles_at_construction_magnitudes_as_override":
        ctor, over = [e for e, a in zip(sp, is_angle) if a], [e for e, a in zip(sp, is_angle) if not a]
    elif source == "magnitudes_at_construction_angles_as_override":
        ctor, over = [e for e, a in zip(sp, is_angle) if not a], [e for e, a in zip(sp, is_angle) if a]
    else:
        h = len(sp) // 2
        ctor, over = sp[:h], sp[h:]
    case = dict(env.point(kv, up, "none"), kind="key_order", set=setname, spelling=spelling, order=order, source=source)
    del case["aber"]
    b = 2 if source != "constructor" else None
    try:
        dp = build(env.x, env.maskname, dict(ctor), env.rot, env.seed)
        got = recon(dp, kv, up, "none", None, b, **({"override_aberration_coefs": dict(over)} if over else {}))
        ref = base.reference(kv, up, b, dict(canon))
    except ReconError as ex:
        t.fail({"relation": "reconstruct_raised", "exception": type(ex.__cause__).__name__, **kclass(kv)}, case, f"{ex} at {case}")
        return
    cls = {"relation": "aberration_key_order_invariance", "order": order, "source": source}  # spelling and kernel are in the case
    e = relerr(got, ref)
    t.case(key=["key_order", case], nontrivial=bool(np.any(ref != 0)), outcome=[round(float(np.abs(ref).max()), 7)])
    t.stat("key_order_rel_err", e)
    t.extra["key_order_combinations"] += 1
    what = f"constructor {dict(ctor)}" + (f" + override {dict(over)}" if over else "")
    if not e <= TOL_OVERRIDE:
        t.fail(cls, case, f"{what}: result differs from the same values in canonical order at construction {dict(canon)} by {e:.3e} of max (tol {TOL_OVERRIDE}) at {case}")
    if tuple(kv) == ("prlx", False) and not (set(canon) - set(LOW_CONTEXT)):
        want = parallax_oracle(env.x, geometric_shifts(env.pix, canon, env.rot), env.W["full"], up)
        e2 = relerr(got, want)
        t.case(key=["key_order_analytic", case], nontrivial=True)
        t.stat("key_order_analytic_rel_err", e2)
        t.extra["key_order_closed_form_points"] += 1
        if not e2 <= TOL_ANALYTIC:
            t.fail(cls, case, f"{what}: parallax (no sign flipping) differs from the sum of images translated by grad chi/2pi for {dict(canon)} by {e2:.3e} of max (tol {TOL_ANALYTIC}) at {case}")


def w_key_order(item, seed=0):
    shape, maskname, rot, kvi, up = item
    t = Tally()
    base = AberBase(shape, maskname, rot, seed)
    kv = KVARIANTS[kvi]
    for setname in ORDER_SETS:
        for spelling in ("canonical", "alias"):
            for order in KEY_ORDERS:
                for source in ORDER_SOURCES:
                    if (spelling, order, source) == ("canonical", "canonical", "constructor"):
                        continue  # the reference itself
                    key_order_point(t, base, kv, up, setname, spelling, order, source)
    t.extra["key_order_items"] += 1
    return t


# ----------------------------------------------------------------------------- (11) histories on ONE object
# Alphabet of public operations; every history up to a depth is executed on a fresh object built WITH constructor
# aberrations (defocus + astigmatism + angle) and judged after its last step (every prefix is itself enumerated).
HIST_ABER = "defocus+astig"
HIST_ROT = 0.3
HIST_OPS = {
    "R": "reconstruct() with the current state",
    "RI": "reconstruct(use_initial_state=True)",
    "RO": "reconstruct(override_aberration_coefs={'C10': 55, 'C12': -9}, override_rotation_angle=0.11)",
    "GR": "grid_search_hyperparameters(rotation_angle=OptimizationParameter(0.0, 0.3, n_points=2))  [rotation only]",
    "GA": "grid_search_hyperparameters(aberration_coefs={'C10': OptimizationParameter(-150, -90, n_points=2)})",
    "OA": "optimize_hyperparameters(aberration_coefs={'C12': OptimizationParameter(40, 40)}, n_trials=1)",
    "OR": "optimize_hyperparameters(rotation_angle=OptimizationParameter(0.2, 0.2), n_trials=1)  [rotation only]",
    "CL": "hyperparameter_state.clear_optimized()",
    "MA": "d = obj.aberration_coefs; d['C10'] = 999.0; d.clear()  [mutate the dictionary the accessor returned]",
}
HIST_FITS = {
    "FX": "fit_hyperparameters_cross_correlation()",
    "FL": "fit_hyperparameters_least_squares()",
}
# searches that start from the constructor state and must therefore end identically when repeated. Not FL:
# fit_hyperparameters_least_squares takes the CURRENT (already optimized) state as its prior, i.e. a second call refines
# the first by design (observed on the current tree: C10 83.9 -> 84.7).
SEARCH_OPS = ("GR", "GA", "OA", "OR", "FX")


def apply_op(dp, op, kw):
    from quantem.diffractive_imaging.direct_ptychography import OptimizationParameter as OP

    with warnings.catch_warnings():
        warnings.simplefilter("ignore")
        if op == "R":
            dp.reconstruct(verbose=False, **kw)
        elif op == "RI":
            dp.reconstruct(verbose=False, use_initial_state=True, **kw)
        elif op == "RO":
            dp.reconstruct(verbose=False, override_aberration_coefs={"C10": 55.0, "C12": -9.0}, override_rotation_angle=0.11, **kw)
        elif op == "GR":
            dp.grid_search_hyperparameters(rotation_angle=OP(0.0, 0.3, n_points=2), verbose=False, **kw)
        elif op == "GA":
            dp.grid_search_hyperparameters(aberration_coefs={"C10": OP(-150.0, -90.0, n_points=2)}, verbose=False, **kw)
        elif op == "OA":
            dp.optimize_hyperparameters(aberration_coefs={"C12": OP(40.0, 40.0)}, n_trials=1, verbose=False, **kw)
        elif op == "OR":
            dp.optimize_hyperparameters(rotation_angle=OP(0.2, 0.2), n_trials=1, verbose=False, **kw)
        elif op == "CL":
            dp.hyperparameter_state.clear_optimized()
        elif op == "MA":
            d = dp.aberration_coefs
            d["C10"] = 999.0
            d.clear()
        elif op == "FX":
            dp.fit_hyperparameters_cross_correlation(verbose=False, **kw)
        elif op == "FL":
            dp.fit_hyperparameters_least_squares(verbose=False, **kw)
        else:
            raise ValueError(op)


def _stack_of(dp):
    return dp.corrected_stack.detach().cpu().numpy().copy()


def _reported(dp):
    return ({k: float(v) for k, v in dict(dp.aberration_coefs).items()}, float(dp.rotation_angle))


_HIST_CACHE = {}


def _hist_base(seed, kvi):
    key = (seed, kvi)
    if key not in _HIST_CACHE:
        env = Env(SHAPES[1], "disc5", HIST_ABER, HIST_ROT, seed)
        kv = KVARIANTS[kvi]
        kw = _recon_kwargs(kv, 1, 2)
        fresh = env.fresh()
        apply_op(fresh, "R", kw)
        _HIST_CACHE[key] = (env, kv, kw, _stack_of(fresh))
    return _HIST_CACHE[key]


def history_point(t, seed, kvi, hist):
    env, kv, kw, ref_init = _hist_base(seed, kvi)
    ctor = {k: float(v) for k, v in env.abers.items()}
    case = {"kind": "history", "kernel": kv[0], "flip": kv[1], "history": list(hist)}
    cls0 = {"kernel": kv[0]}
    dp = env.fresh()
    t.case(key=["history", case], nontrivial=True)
    t.extra["histories"] += 1
    done = []
    try:
        for op in hist:
            apply_op(dp, op, kw)
            done.append(op)
    except Exception as ex:
        t.fail({"relation": "history_operation_raised", "op": hist[len(done)], **cls0}, case, f"history {list(hist)}: operation {hist[len(done)]} ({({**HIST_OPS, **HIST_FITS})[hist[len(done)]]}) raised {type(ex).__name__}: {str(ex)[:200]} after {done}")
        return
    H = f"history {list(hist)} on one object built with {ctor}, rotation {HIST_ROT}, kernel {kv[0]}"
    try:
        # the constructor state is never changed by searches, fits, undo or reconstructions
        st = dp.hyperparameter_state
        ini = {k: float(v) for k, v in dict(st.initial_aberrations).items()}
        if ini != ctor or float(st.initial_rotation_angle) != HIST_ROT:
            t.fail({"relation": "constructor_state_unchanged_by_history", "judge": "accessor", **cls0}, case, f"{H}: hyperparameter_state reports initial_aberrations={ini}, initial_rotation_angle={st.initial_rotation_angle} instead of the constructor values")
        apply_op(dp, "RI", kw)
        e = relerr(_stack_of(dp), ref_init)
        t.stat("history_initial_state_rel_err", e)
        if not e <= TOL_OVERRIDE:
            t.fail({"relation": "constructor_state_unchanged_by_history", "judge": "result", **cls0}, case, f"{H}: reconstruct(use_initial_state=True) differs from a fresh object built from the same inputs by {e:.3e} of max (tol {TOL_OVERRIDE})")
        # the current-state reconstruction is the fresh-object result for the hyper-parameters the accessors report
        ab, rot = _reported(dp)
        apply_op(dp, "R", kw)
        cur = _stack_of(dp)
        twin = build(env.x, env.maskname, ab, rot, env.seed)
        apply_op(twin, "R", kw)
        e = relerr(cur, _stack_of(twin))
        t.stat("history_reported_state_rel_err", e)
        if not e <= TOL_OVERRIDE:
            t.fail({"relation": "result_is_function_of_reported_hyperparameters", **cls0}, case, f"{H}: reconstruct() differs from a fresh object built with the reported aberration_coefs={ab}, rotation_angle={rot} by {e:.3e} of max")
        # a repeated identical search ends identically
        if hist[-1] in SEARCH_OPS:
            apply_op(dp, hist[-1], kw)
            ab2, rot2 = _reported(dp)
            e = relerr(_stack_of(dp), cur)
            t.stat("history_repeated_search_rel_err", e)
            t.extra["histories_with_repeated_search"] += 1
            if not (e <= TOL_OVERRIDE and ab2 == ab and rot2 == rot):
                t.fail({"relation": "repeated_identical_search_identical_result", "op": hist[-1], **cls0}, case, f"{H}: repeating the last search {hist[-1]} ends with aberration_coefs={ab2}, rotation_angle={rot2} and a result differing by {e:.3e} of max; the first time it ended with {ab}, {rot}")
        # undo: after clear_optimized the public accessors and the reconstruction are those of the constructor state
        apply_op(dp, "CL", kw)
        ab3, rot3 = _reported(dp)
        apply_op(dp, "R", kw)
        e = relerr(_stack_of(dp), ref_init)
        t.stat("history_after_clear_rel_err", e)
        if not (ab3 == ctor and rot3 == HIST_ROT and e <= TOL_OVERRIDE):
            t.fail({"relation": "state_after_clear_optimized_equals_constructor_state", **cls0}, case, f"{H}, then clear_optimized(): accessors report aberration_coefs={ab3}, rotation_angle={rot3} (constructor: {ctor}, {HIST_ROT}); reconstruct() differs from the fresh object by {e:.3e} of max")
    except Exception as ex:
        t.fail({"relation": "history_operation_raised", "op": "probe", **cls0}, case, f"{H}: a probing operation raised {type(ex).__name__}: {str(ex)[:200]}")


def w_history(item, seed=0):
    kvi, hist = item
    t = Tally()
    history_point(t, seed, kvi, tuple(hist))
    return t


def all_histories(ops, depth):
    out = []
    for n in range(1, depth + 1):
        out += list(itertools.product(ops, repeat=n))
    return out


# ----------------------------------------------------------------------------- (12) copies that are used further
COPY_ROUTES = ["copy.copy", "copy.deepcopy", "pickle", "deepcopy_of_unpickled", "save_load_dir", "save_load_zip"]
SHALLOW_ROUTES = ("copy.copy",)


def make_copy(route, dp):
    import copy
    import os
    import pickle
    import tempfile

    if route == "copy.copy":
        return copy.copy(dp)
    if route == "copy.deepcopy":
        return copy.deepcopy(dp)
    if route == "pickle":
        return pickle.loads(pickle.dumps(dp))
    if route == "deepcopy_of_unpickled":
        return copy.deepcopy(pickle.loads(pickle.dumps(dp)))
    from quantem.core.io.serialize import load

    with tempfile.TemporaryDirectory(dir=os.environ.get("QUANTEM_VERIF_SCRATCH") or None) as d:
        p = os.path.join(d, "dp" + (".zip" if route.endswith("zip") else ""))
        with warnings.catch_warnings():
            warnings.simplefilter("ignore")
            import contextlib
            import io

            with contextlib.redirect_stdout(io.StringIO()):
                dp.save(p)
                return load(p)


def copy_point(t, env, kv, up, route, used):
    kw = _recon_kwargs(kv, up, None)
    case = dict(env.point(kv, up, "none"), kind="copy", route=route, used=bool(used))
    cls = {"route": route, "kernel": kv[0]}
    orig = env.fresh()
    try:
        if used:
            apply_op(orig, "R", kw)
            apply_op(orig, "GA", kw)
        ref = recon(orig, kv, up, "none", None, None)
        ref_sub = recon(orig, kv, up, "none", env.arrays["cb1"], 2)
        rep0 = _reported(orig)
    except Exception as ex:
        t.fail({"relation": "history_operation_raised", "op": "prepare_original", "kernel": kv[0]}, case, f"preparing the original raised {type(ex).__name__}: {str(ex)[:200]} at {case}")
        return
    try:
        c = make_copy(route, orig)
    except Exception as ex:
        t.extra["copy_route_rejected__" + route] += 1
        t.case(key=["copy_rejected", case], nontrivial=False)
        t.sample({"rejected_copy_route": route, "exception": f"{type(ex).__name__}: {ex}"[:200]}, cap=1)
        return
    t.extra["copy_route_accepted__" + route] += 1
    try:
        got = recon(c, kv, up, "none", None, None)
        e = max(relerr(got, ref), relerr(recon(c, kv, up, "none", env.arrays["cb1"], 2), ref_sub))
        t.case(key=["copy", case], nontrivial=bool(np.any(ref != 0)), outcome=[round(float(np.abs(ref).max()), 7)])
        t.stat("copy_rel_err", e)
        if not e <= TOL_OVERRIDE:
            t.fail({"relation": "copy_reconstructs_like_original", **cls}, case, f"{route} of a{'n already used' if used else ' freshly constructed'} object: reconstruction on the copy differs from the original's by {e:.3e} of max (tol {TOL_OVERRIDE}); mean of the copy's result {float(got.mean()):.3e} vs original {float(ref.mean()):.3e}, at {case}")
        if tuple(kv) == ("prlx", False) and env.abername in ANALYTIC_ABERS and not used:
            want = parallax_oracle(env.x, geometric_shifts(env.pix, env.abers, env.rot), env.W["full"], up)
            e2 = relerr(got, want)
            t.case(key=["copy_analytic", case], nontrivial=True)
            t.stat("copy_analytic_rel_err", e2)
            t.extra["copy_closed_form_points"] += 1
            if not e2 <= TOL_ANALYTIC:
                t.fail({"relation": "parallax_analytic_on_copy", "route": route}, case, f"{route}: parallax (no sign flipping) on the copy differs from the closed form by {e2:.3e} of max (tol {TOL_ANALYTIC}) at {case}")
        # use both alternately: a search on one must not change the other
        apply_op(c, "GA", kw)
        after_c = recon(c, kv, up, "none", None, None)
        rep_c = _reported(c)
        now = recon(orig, kv, up, "none", None, None)
        rep1 = _reported(orig)
        if route in SHALLOW_ROUTES:
            # a shallow copy shares its mutable members by definition: only counted, and the original must still be the
            # fresh-object result for the hyper-parameters it now reports
            if rep1 != rep0:
                t.extra["shallow_copy_shares_hyperparameter_state"] += 1
            twin = recon(build(env.x, env.maskname, rep1[0], rep1[1], env.seed), kv, up, "none", None, None)
            e3 = relerr(now, twin)
            if not e3 <= TOL_OVERRIDE:
                t.fail({"relation": "result_is_function_of_reported_hyperparameters", "kernel": kv[0]}, case, f"after a search on its {route}, the original differs from a fresh object built with the hyper-parameters it reports ({rep1}) by {e3:.3e} at {case}")
        else:
            e3 = relerr(now, ref)
            t.stat("copy_independence_rel_err", e3)
            if not (e3 <= TOL_OVERRIDE and rep1 == rep0):
                t.fail({"relation": "copy_and_original_independent", **cls}, case, f"a search on the {route} changed the original: it now reports {rep1} (before: {rep0}) and its reconstruction moved by {e3:.3e} of max, at {case}")
            apply_op(orig, "OA", kw)
            e4 = relerr(recon(c, kv, up, "none", None, None), after_c)
            if not (e4 <= TOL_OVERRIDE and _reported(c) == rep_c):
                t.fail({"relation": "copy_and_original_independent", **cls}, case, f"a search on the original changed its {route}: the copy now reports {_reported(c)} (before: {rep_c}), reconstruction moved by {e4:.3e}, at {case}")
    except Exception as ex:
        t.fail({"relation": "history_operation_raised", "op": "use_copy", "kernel": kv[0]}, case, f"using the {route} raised {type(ex).__name__}: {str(ex)[:200]} at {case}")


def w_copies(item, seed=0):
    abername, kvi, up = item
    t = Tally()
    env = Env(SHAPES[1], "disc5", abername, 0.3, seed)
    for route in COPY_ROUTES:
        if route.startswith("save_load") and kvi != 0:
            continue  # the save / load route does not depend on the kernel and costs 0.3 s per attempt
        for used in (False, True):
            copy_point(t, env, KVARIANTS[kvi], up, route, used)
    t.extra["copy_items"] += 1
    return t


# ----------------------------------------------------------------------------- driver
def run(ctx):
    q = ctx.quick
    table, found = alias_table()
    if found is None:
        ctx.seam_missing.append("DirectPtychography._normalize_kernel_name (alias discovery): only the known alias table is used")
    ctx.assume(
        "stack order convention: image i of the stack belongs to the i-th True pixel of the detector mask in row-major order",
        "aperture weight W = sum |psi(k)|^2 over the mask from the library's public evaluate_probe (own closed-form soft aperture compared, see max_aperture_weight_own_vs_library_rel)",
        "float32 tolerances relative to the output maximum: batch 3e-5, linearity 5e-5 (delta basis 2e-4), recombination / filter 4e-5, analytic 2e-4",
        "oracle (4) is applied for zero aberrations, defocus and defocus+astigmatism only (as the property states), unfiltered; for upsampling > 1 the virtual image is the zero-interleaved image on the finer grid",
        "two-pass kernels (obf, mf) are exempt from recombination and must violate it (sensitivity control)",
        "oracle (6) (same filter envelope for every kernel) is not part of the literal statement; it makes 'filter' a hyper-parameter with one meaning",
        "mask spellings hold 0/1 (False/True) values only; a spelling the library rejects by raising is counted per spelling, never a failure",
        "the optimized hyper-parameter state is reached only through the public searches (grid_search_hyperparameters with one grid point or a fixed value, optimize_hyperparameters with low == high, one trial), which are deterministic for a single candidate",
        "'defocus' = -C10 (documented sign); all other aliases carry the value of their canonical symbol; for conflicting values of one coefficient in one dictionary the property states no order: which spelling wins is counted (coverage.conflicting_spellings_winner), not judged",
        "rotation boundary family: ssb divides by |gamma| and is therefore not continuous in any parameter (jumps up to 0.8 on the current tree); continuity in the rotation angle is judged for obf, mf, parallax and icom only; ssb is judged by the exact quarter-turn symmetry of the detector grid; there is no degree spelling of the rotation angle in from_virtual_bfs / reconstruct",
        "an aberration dictionary is a mapping: key order (also across constructor and override) must not matter",
        "histories: hyperparameter_state.clear_optimized() and the initial_* fields of hyperparameter_state are treated as public (no underscore); searches use one candidate or a 2-point grid so that they are deterministic; fit_hyperparameters_least_squares is exempt from the repeated-search relation because it takes the current state as its prior",
        "copies: copy.copy is shallow by definition, so a search on it may change the original (counted in coverage.shallow_copy_shares_hyperparameter_state); the original must then still be the fresh-object result for the hyper-parameters it reports. Routes that raise (save / load on the current tree) are counted in coverage.copy_routes_rejected",
    )

    def once():
        t = w_lattice(((5, 5), "disc5", "defocus+astig", 0.3, 1, 2), seed=ctx.seed, filters=("both",))
        t2 = w_lattice(((6, 7), "disc5", "defocus", 0.0, 4, 1), seed=ctx.seed, filters=("none",))
        return (t.n, sorted(t.outcomes), t.nfails, sorted(t.maxima.items()), t2.n, sorted(t2.outcomes), t2.nfails, sorted(t2.maxima.items()))

    ctx.selftest(once)

    shapes = [SHAPES[1]] if q else SHAPES  # quick: the non-square odd/even shape; the 5x5 scan is covered by the delta-basis part
    filters = ("none", "both") if q else tuple(FILTERS)
    masks = list(MASKS)
    ctx.coverage["alphabet"] = {
        "scan_shapes": [list(s) for s in shapes],
        "scan_sampling_A": list(SCAN_SAMPLING),
        "construction_masks": {m: {"semiangle_mrad": MASKS[m], "num_bf": len(det_mask(m)[1])} for m in masks},
        "sub_masks": SUBMASKS,
        "partitions": PARTITIONS,
        "aberrations": ABERS,
        "rotations_rad": ROTS,
        "kernels": [{"kernel": k, "parallax_flip_phase": f} for k, f in KVARIANTS],
        "aliases": table,
        "aliases_found_in_library_source": found,
        "upsampling": UPS,
        "filters_qhigh_qlow": {k: list(FILTERS[k]) for k in filters},
        "batch_sizes": "every integer 1..num_bf(sub-mask) and None, at every point",
    }
    abers = [a for a in ABERS if a != "defocus"] if q else list(ABERS)  # quick: defocus alone is implied by defocus+astig
    ctx.coverage["alphabet"]["aberrations"] = {a: ABERS[a] for a in abers}
    items = list(itertools.product(shapes, masks, abers, ROTS, range(len(KVARIANTS)), UPS))
    # simplest first (small mask, no aberrations, upsampling 1): the failures kept per class are then the simplest points.
    # Items cost 0.2-3 s each, so the order does not matter for the pool balance.
    items.sort(key=lambda it: (len(det_mask(it[1])[1]), it[5], list(ABERS).index(it[2]), it[3], it[0][0] * it[0][1], it[4]))
    ctx.coverage["bounds"] = {"lattice_points": len(items) * len(filters) * len(SUBMASKS), "settings": len(items) * len(filters)}
    ctx.pmap(w_lattice, items, chunk=1, label="lattice x schedules", seed=ctx.seed, filters=filters)

    # (2) complete delta basis for the smallest scan shape
    b_masks = ["disc5"] if q else masks
    b_abers = ["none", "defocus+astig+coma+Cs"] if q else list(ABERS)
    b_filters = ("none", "both") if q else tuple(FILTERS)
    b_items = list(itertools.product(b_masks, b_abers, ROTS, range(len(KVARIANTS)), UPS))
    b_items.sort(key=lambda it: (-len(det_mask(it[0])[1]), -it[4]))  # expensive first: items cost 2-12 s
    ctx.coverage["bounds"]["delta_basis"] = {"scan_shape": list(SHAPES[0]), "masks": b_masks, "aberrations": b_abers, "filters": list(b_filters), "upsampling": UPS, "configs": len(b_items) * len(b_filters)}
    ctx.pmap(w_basis, b_items, chunk=1, label="delta basis", seed=ctx.seed, filters=b_filters)

    # (7) spellings of mask-like / index-like arguments
    pairs, pair_src, uncovered = aber_pairs()
    s_shapes = [SHAPES[1]] if q else SHAPES
    s_abers = ["none", "defocus+astig"] if q else list(ABERS)
    s_rots = [0.3] if q else ROTS
    s_ups = [1, 2] if q else UPS
    s_items = list(itertools.product(s_shapes, masks, s_abers, s_rots, range(len(KVARIANTS)), s_ups))
    s_items.sort(key=lambda it: (len(det_mask(it[1])[1]), it[5], list(ABERS).index(it[2]), it[3], it[0][0] * it[0][1], it[4]))
    ctx.coverage["alphabet"]["mask_spellings"] = ["t_bool (canonical)"] + MASK_SPELLINGS
    ctx.coverage["alphabet"]["mask_spelling_targets"] = {k: (f"complement of {v}" if v else "as named") for k, v in SPELL_TARGETS.items()}
    ctx.coverage["alphabet"]["index_spellings"] = INDEX_SPELLINGS
    ctx.coverage["alphabet"]["constructor_mask_spellings"] = CTOR_MASK_SPELLINGS
    ctx.coverage["bounds"]["mask_spelling_items"] = len(s_items)
    ctx.pmap(w_mask_spell, s_items, chunk=1, label="mask / index spellings", seed=ctx.seed)

    # (8) aberration spelling x source precedence
    a_shapes = [SHAPES[1]]  # the scan shape does not interact with how aberration names are resolved
    a_masks = ["disc5"] if q else masks
    a_rots = [0.3] if q else ROTS
    a_ups = [1] if q else [1, 2]
    a_opts = tuple(o for o in OPT_KINDS if not (q and o.startswith("optuna")))
    a_items = list(itertools.product(a_shapes, a_masks, a_rots, range(len(KVARIANTS)), a_ups, range(len(pairs))))
    ctx.coverage["alphabet"]["aberration_alias_pairs"] = {"source": pair_src, "pairs": [[a, c, sgn] for a, c, sgn in pairs], "aliases_without_values_in_this_check": uncovered}
    ctx.coverage["alphabet"]["aberration_sources"] = {"constructor": CTOR_KINDS, "optimized": list(a_opts), "override": OVER_KINDS, "one_dictionary": ONE_DICT_KINDS, "values_ctor_opt_override": ABER_VALUES}
    ctx.coverage["bounds"]["aberration_spelling_items"] = len(a_items)
    ctx.pmap(w_aber_spell, a_items, chunk=1, label="aberration spellings x sources", seed=ctx.seed, opts=a_opts)

    # (9) rotation-angle boundary alphabet
    r_shapes = [SHAPES[1]] if q else SHAPES
    r_abers = ["none", "defocus+astig", "defocus+astig+coma+Cs"] if q else list(ABERS)
    r_ups = [1, 2] if q else UPS
    r_items = list(itertools.product(r_shapes, masks, r_abers, range(len(KVARIANTS)), r_ups))
    r_items.sort(key=lambda it: (len(det_mask(it[1])[1]), it[4], list(ABERS).index(it[2]), it[0][0] * it[0][1], it[3]))
    ctx.coverage["alphabet"]["rotation_boundary_angles"] = {n: v for n, v in ROT_BOUNDARY}
    ctx.coverage["alphabet"]["rotation_sources"] = ["constructor", f"override_rotation_angle on an object built with {ROT_OTHER}"]
    ctx.coverage["bounds"]["rotation_items"] = len(r_items)
    ctx.pmap(w_rotation, r_items, chunk=1, label="rotation boundary angles", seed=ctx.seed)

    # (10) key-order invariance
    k_masks = ["disc5"] if q else masks
    k_ups = [1] if q else [1, 2]
    k_items = list(itertools.product([SHAPES[1]], k_masks, [0.3] if q else ROTS, range(len(KVARIANTS)), k_ups))
    ctx.coverage["alphabet"]["key_order"] = {"sets": ORDER_SETS, "orders": KEY_ORDERS, "sources": ORDER_SOURCES, "spellings": ["canonical", "alias"]}
    ctx.coverage["bounds"]["key_order_items"] = len(k_items)
    ctx.pmap(w_key_order, k_items, chunk=1, label="aberration key order", seed=ctx.seed)

    # (11) histories on one object
    if q:
        h_items = [(kvi, h) for kvi in (0, 4) for h in all_histories(list(HIST_OPS), 3)]
        h_bounds = {"kernels": ["ssb", "prlx (no flipping)"], "operations": list(HIST_OPS), "depth": 3}
    else:
        h_items = [(kvi, h) for kvi in (0, 4) for h in all_histories(list(HIST_OPS), 4)]
        h_items += [(kvi, h) for kvi in (1, 2, 3, 5) for h in all_histories(list(HIST_OPS), 3)]
        h_items += [(kvi, h) for kvi in (0, 4) for h in all_histories(list(HIST_OPS) + list(HIST_FITS), 3) if set(h) & set(HIST_FITS)]
        h_bounds = {"kernels": "ssb and prlx (no flipping): depth 4, and depth 3 with the two fit_* operations added; obf, mf, prlx (flipping), icom: depth 3", "operations": list(HIST_OPS) + list(HIST_FITS), "depth": 4}
    ctx.coverage["alphabet"]["history_operations"] = {**HIST_OPS, **HIST_FITS}
    ctx.coverage["alphabet"]["history_object"] = {"scan_shape": list(SHAPES[1]), "mask": "disc5", "constructor_aberrations": ABERS[HIST_ABER], "rotation": HIST_ROT}
    ctx.coverage["bounds"]["histories"] = dict(h_bounds, count=len(h_items))
    ctx.pmap(w_history, h_items, chunk=24, label="histories on one object", seed=ctx.seed)

    # (12) copies used further
    c_items = list(itertools.product(["defocus+astig", "defocus+astig+coma+Cs"], range(len(KVARIANTS)), [1] if q else [1, 2]))
    ctx.coverage["alphabet"]["copy_routes"] = COPY_ROUTES
    ctx.coverage["bounds"]["copy_items"] = len(c_items)
    ctx.pmap(w_copies, c_items, chunk=1, label="copies used further", seed=ctx.seed)

    ex = ctx.tally.extra
    ctx.coverage["copy_routes_rejected"] = {k.split("__", 1)[1]: int(v) for k, v in sorted(ex.items()) if k.startswith("copy_route_rejected__")}
    ctx.coverage["shallow_copy_shares_hyperparameter_state"] = int(ex.get("shallow_copy_shares_hyperparameter_state", 0))
    if not ctx.tally.nfails and (ex.get("histories", 0) < 100 or not any(k.startswith("copy_route_accepted__") for k in ex)):
        raise Broken("the history / copy families were not enumerated")
    winners = {}
    for k, v in sorted(ex.items()):
        if k.startswith("conflict_winner__"):
            _, coef, where, label = k.split("__", 3)
            winners.setdefault(coef, {}).setdefault(where, {})[label] = int(v)
    ctx.coverage["conflicting_spellings_winner"] = winners
    if not ctx.tally.nfails and (ex.get("rotation_closed_form_points", 0) < 10 or ex.get("key_order_combinations", 0) < 100):
        raise Broken("the rotation-boundary / key-order families were not enumerated")
    ctx.coverage["mask_spellings_rejected"] = {k.split("__", 1)[1]: int(v) for k, v in sorted(ex.items()) if k.startswith("mask_spelling_rejected__")}
    ctx.coverage["index_spellings_rejected"] = {k.split("__", 1)[1]: int(v) for k, v in sorted(ex.items()) if k.startswith("index_spelling_rejected__")}
    if not ctx.tally.nfails and (not any(k.startswith("mask_spelling_accepted__") for k in ex) or ex.get("aberration_spelling_combinations", 0) < 100 or ex.get("aberration_spelling_closed_form_points", 0) < 10):
        raise Broken("the spelling families were not enumerated (no accepted mask spelling / too few aberration combinations)")
    if ex.get("weight_seam_missing"):
        ctx.seam_missing.append("complex_probe.evaluate_probe/spatial_frequencies/polar_coordinates (aperture weight): own closed-form soft aperture used instead")
    # sensitivity control: the two-pass kernels must keep violating the recombination relation
    for k in ("obf", "mf"):
        pts, viol = ex.get(f"control_points_{k}", 0), ex.get(f"control_violations_{k}", 0)
        ctx.coverage[f"control_{k}"] = {"points": int(pts), "violating": int(viol)}
        if ctx.tally.nfails:
            continue  # recorded failures take precedence: report them instead of aborting on the control
        if pts == 0 or viol < 0.9 * pts:
            raise Broken(
                f"sensitivity control: the two-pass kernel {k} violates sub-mask recombination at only {viol} of {pts} points (residual > {CONTROL_MIN}); "
                "either the recombination oracle has gone blind or the library's two-pass normalisation legitimately changed (then update this control)"
            )
    if not ctx.tally.nfails and (ex.get("analytic_points", 0) < 10 or ex.get("alias_evaluations", 0) < 10):
        raise Broken("the analytic / alias sub-lattices were not enumerated")
    if len(ctx.tally.outcomes) < 50:
        raise Broken("too few distinct reference outputs: the lattice did not vary")


def replay(ctx, case):
    t = Tally()
    kv = (case["kernel"], case["flip"])
    kind = case.get("kind", "point")
    if kind in ("aber_spelling", "aber_one_dict"):
        base = AberBase(tuple(case["shape"]), case["mask"], case["rot"], ctx.seed)
        pair = next(p for p in aber_pairs()[0] if p[1] == case["coef"] and p[0] == case["alias"])
        if kind == "aber_spelling":
            aber_combo(t, base, kv, case["up"], pair, case["ctor"], case["opt"], case["over"])
        else:
            aber_one_dict(t, base, kv, case["up"], pair, case["where"], case["how"])
        print("  worst observed deviations at this point:", {k: f"{v:.3e}" for k, v in sorted(t.maxima.items())})
        for f in t.fails:
            ctx.fail(f["cls"], f["case"], f["msg"])
        return
    if kind == "history":
        history_point(t, ctx.seed, KVARIANTS.index((case["kernel"], case["flip"])), tuple(case["history"]))
        print("  worst observed deviations for this history:", {k: f"{v:.3e}" for k, v in sorted(t.maxima.items())})
        for f in t.fails:
            ctx.fail(f["cls"], f["case"], f["msg"])
        return
    if kind == "copy":
        copy_point(t, Env(tuple(case["shape"]), case["mask"], case["aber"], case["rot"], ctx.seed), kv, case["up"], case["route"], case["used"])
        print("  worst observed deviations for this copy:", {k: f"{v:.3e}" for k, v in sorted(t.maxima.items())})
        for f in t.fails:
            ctx.fail(f["cls"], f["case"], f["msg"])
        return
    if kind == "key_order":
        key_order_point(t, AberBase(tuple(case["shape"]), case["mask"], case["rot"], ctx.seed), kv, case["up"], case["set"], case["spelling"], case["order"], case["source"])
        print("  worst observed deviations at this point:", {k: f"{v:.3e}" for k, v in sorted(t.maxima.items())})
        for f in t.fails:
            ctx.fail(f["cls"], f["case"], f["msg"])
        return
    if kind == "rotation":
        try:
            rotation_point(t, Env(tuple(case["shape"]), case["mask"], case["aber"], 0.0, ctx.seed), kv, case["up"], case["angle"])
        except ReconError as ex:
            t.fail({"relation": "reconstruct_raised", "exception": type(ex.__cause__).__name__, **kclass(kv)}, case, str(ex))
        print("  worst observed deviations at this angle:", {k: f"{v:.3e}" for k, v in sorted(t.maxima.items())})
        for f in t.fails:
            ctx.fail(f["cls"], f["case"], f["msg"])
        return
    env = Env(tuple(case["shape"]), case["mask"], case["aber"], case["rot"], ctx.seed)
    if kind == "mask_spelling":
        try:
            spelling_point(t, env, kv, case["up"], case["sub"], case["spelling"], case["batch"])
        except ReconError as ex:
            t.fail({"relation": "reconstruct_raised", "exception": type(ex.__cause__).__name__, **kclass(kv)}, case, str(ex))
    elif kind == "index_spelling":
        index_spelling_point(t, env, kv, case["up"], case["argument"], case["spelling"])
    elif kind == "ctor_mask_spelling":
        ctor_mask_point(t, env, kv, case["up"], case["constructor_mask"])
    elif kind == "basis":
        try:
            w = basis_config(t, env, kv, case["up"], case["filter"])
            print(f"  delta-basis linearity worst relative error {w:.3e} (tol {TOL_BASIS})")
        except ReconError as ex:
            t.fail({"relation": "reconstruct_raised", "exception": type(ex.__cause__).__name__, **kclass(kv)}, case, str(ex))
    elif kind == "setting":
        run_setting(t, env, kv, case["up"], case["filter"])
    else:
        bf, ref = check_point(t, env, kv, case["up"], case["filter"], case["sub"])
        if ref is not None:
            print(f"  point {env.point(kv, case['up'], case['filter'], case['sub'])}: num_bf={len(env.subs[case['sub']])} W={env.W[case['sub']]:.6f} max|R|={np.abs(ref).max():.6g}")
    print("  worst observed deviations at this point:", {k: f"{v:.3e}" for k, v in sorted(t.maxima.items())})
    for f in t.fails:
        ctx.fail(f["cls"], f["case"], f["msg"])
