"""Shared harness: context object, tallies, known findings, replay artefacts, evidence, process pool.

Nothing here knows anything about quantem beyond "import it from the tree we were told to use".
"""
from __future__ import annotations

import hashlib
import json
import multiprocessing as mp
import os
import subprocess
import sys
import threading
import time
import traceback
import warnings
from collections import Counter

VERIF = os.path.dirname(os.path.dirname(os.path.abspath(__file__)))
EVIDENCE_SCHEMA = "/root/.vp/EVIDENCE.schema.json"
MANIFEST_SCHEMA = "/root/.vp/MANIFEST.schema.json"
KNOWN = os.path.join(VERIF, "known_findings.json")

MAX_FAILS_KEPT = 120
PER_CLASS = 3


class Broken(Exception):
    """The check itself cannot be trusted (non-determinism, vacuous enumeration, harness error)."""


def digest(obj) -> str:
    if not isinstance(obj, (bytes, bytearray)):
        obj = json.dumps(obj, sort_keys=True, default=repr).encode()
    return hashlib.blake2b(obj, digest_size=8).hexdigest()


def jsonable(x):
    """Best-effort conversion of a case descriptor to plain JSON."""
    import numpy as np

    if isinstance(x, dict):
        return {str(k): jsonable(v) for k, v in x.items()}
    if isinstance(x, (list, tuple)):
        return [jsonable(v) for v in x]
    if isinstance(x, (set, frozenset)):
        return sorted((jsonable(v) for v in x), key=repr)
    if isinstance(x, np.ndarray):
        return x.tolist() if x.size <= 64 else {"ndarray": list(x.shape), "dtype": str(x.dtype)}
    if isinstance(x, (np.integer,)):
        return int(x)
    if isinstance(x, (np.floating,)):
        return float(x)
    if isinstance(x, (np.bool_,)):
        return bool(x)
    if isinstance(x, complex):
        return {"re": x.real, "im": x.imag}
    if isinstance(x, float):
        if x != x:
            return "nan"
        if x in (float("inf"), float("-inf")):
            return "inf" if x > 0 else "-inf"
        return x
    if isinstance(x, (str, int, bool)) or x is None:
        return x
    if isinstance(x, slice):
        return {"slice": [x.start, x.stop, x.step]}
    if x is Ellipsis:
        return "..."
    return repr(x)


class Tally:
    """Counts what an enumeration covered. Picklable; merged from worker processes."""

    def __init__(self):
        self.n = 0  # evaluations
        self.nontrivial = set()  # digests of distinct non-trivial cases
        self.outcomes = set()  # digests of distinct observed outcomes
        self.fails = []  # dicts {cls, case, msg}
        self.nfails = 0
        self.fail_classes = Counter()
        self.samples = []
        self.extra = Counter()
        self.maxima = {}  # name -> largest value observed (e.g. worst deviation from the oracle)

    def stat(self, name, value):
        """Track the maximum of a measured quantity (e.g. worst observed error relative to tolerance)."""
        v = float(value)
        if v == v and (name not in self.maxima or v > self.maxima[name]):
            self.maxima[name] = v

    def case(self, key=None, nontrivial=True, outcome=None, n=1):
        self.n += n
        if nontrivial:
            self.nontrivial.add(digest(key) if key is not None else f"#{self.n}")
        if outcome is not None:
            self.outcomes.add(digest(outcome))

    def fail(self, cls, case, msg):
        """Record a failing point. At most PER_CLASS points are kept per failure class (the first ones in
        enumeration order, i.e. the simplest), so that one noisy class cannot hide another."""
        self.nfails += 1
        c = jsonable(cls)
        k = digest(c)
        self.fail_classes[k] += 1
        if self.fail_classes[k] <= PER_CLASS and len(self.fails) < MAX_FAILS_KEPT:
            self.fails.append({"cls": c, "case": jsonable(case), "msg": str(msg)[:2000]})

    def sample(self, s, cap=5):
        if len(self.samples) < cap:
            self.samples.append(jsonable(s))

    def merge(self, o: "Tally"):
        self.n += o.n
        self.nontrivial |= o.nontrivial
        self.outcomes |= o.outcomes
        self.nfails += o.nfails
        # per class keep the PER_CLASS *smallest* cases (shortest history / simplest point)
        allf = self.fails + o.fails
        allf.sort(key=lambda f: len(json.dumps(f["case"], default=repr)))
        kept = Counter()
        self.fails = []
        for f in allf:
            k = digest(f["cls"])
            if kept[k] < PER_CLASS and len(self.fails) < MAX_FAILS_KEPT:
                self.fails.append(f)
                kept[k] += 1
        self.fail_classes.update(o.fail_classes)
        for s in o.samples:
            if len(self.samples) < 8:
                self.samples.append(s)
        self.extra.update(o.extra)
        for k, v in getattr(o, "maxima", {}).items():
            self.stat(k, v)
        return self


def neutralise_overheads():
    """gc.collect / empty_cache cost 200 ms per call and cannot change a result."""
    import gc

    gc.collect = lambda *a, **k: 0  # type: ignore
    try:
        import torch

        torch.cuda.empty_cache = lambda *a, **k: None  # type: ignore
    except Exception:
        pass


def _worker_init():
    warnings.simplefilter("ignore")
    # every worker process gets a temp directory of its own: library code that derives temp-file names from a seeded
    # generator (Ptychography.clone does) would otherwise collide between workers that run identically seeded cases
    import tempfile

    base = os.environ.get("QUANTEM_VERIF_SCRATCH") or tempfile.gettempdir()
    d = os.path.join(base, f"worker-{os.getpid()}")
    os.makedirs(d, exist_ok=True)
    os.environ["TMPDIR"] = d
    tempfile.tempdir = d
    try:
        import torch

        torch.set_num_threads(1)
    except Exception:
        pass
    neutralise_overheads()


def _raised_in_library(tb) -> bool:
    """True when the innermost frame of the traceback lies inside the quantem tree under test."""
    root = os.path.realpath(os.path.join(os.environ.get("VERIF_REPO", "/repo"), "src")) + os.sep
    last = None
    while tb is not None:
        last = tb
        tb = tb.tb_next
    if last is None:
        return False
    return os.path.realpath(last.tb_frame.f_code.co_filename).startswith(root)


def _call_chunk(args):
    func, chunk, kw = args
    warnings.simplefilter("ignore")
    t = Tally()
    for item in chunk:
        try:
            r = func(item, **kw)
        except Broken:
            raise
        except Exception as e:
            t.n += 1
            tb = traceback.format_exc()[-1500:]
            if _raised_in_library(e.__traceback__):
                # the library itself raised on a point of the lattice (all points are valid inputs for which the
                # property promises a result): that is a verdict, replayable by calling the worker again
                t.fail(
                    {"relation": "library_raises_on_valid_input", "exception": type(e).__name__, "worker": func.__name__},
                    {"__func__": func.__name__, "__item__": jsonable(item), "__kw__": jsonable(kw)},
                    f"{func.__name__}({jsonable(item)!r}) raised inside quantem: {type(e).__name__}: {str(e)[:300]}\n{tb[-600:]}",
                )
            else:  # a crash of the *checker* on one point: reported, makes the run broken
                t.extra["harness_errors"] += 1
                t.fail({"harness_error": type(e).__name__}, {"item": jsonable(item)}, "HARNESS ERROR " + tb)
            continue
        if isinstance(r, Tally):
            t.merge(r)
    return t


class Ctx:
    def __init__(self, prop, tier, seed, jobs=0, write_evidence=True):
        self.prop = prop
        self.tier = tier
        self.seed = seed
        self.jobs = jobs or min(16, os.cpu_count() or 1)
        self.write_evidence = write_evidence
        self.t0 = time.time()
        self.tally = Tally()
        self.coverage = {}
        self.assumptions = []
        self.capped = False
        self.level = "exploration"
        self.rule = ""
        self._pool = None
        self._last = 0.0
        default_ceiling = 900 if tier == "quick" else 5400
        self.ceiling = float(os.environ.get("VERIF_CEILING", default_ceiling))
        self.repo = os.environ.get("VERIF_REPO", "/repo")
        self.scratch = os.environ.get("QUANTEM_VERIF_SCRATCH") or os.environ.get("TMPDIR", "/tmp")
        self.seam_missing = []

    # ------------------------------------------------------------------ basics
    @property
    def quick(self):
        return self.tier == "quick"

    def elapsed(self):
        return time.time() - self.t0

    def say(self, msg):
        print(f"[{self.prop} {self.elapsed():7.1f}s] {msg}", flush=True)

    def tick(self, msg, every=8.0):
        now = time.time()
        if now - self._last >= every:
            self._last = now
            self.say(msg)

    def rng(self, *key):
        import numpy as np

        return np.random.default_rng([self.seed, int(self.prop[1:])] + [int(k) for k in key])

    def bind_repo(self):
        warnings.simplefilter("ignore")
        import quantem

        src = os.path.realpath(os.path.join(self.repo, "src"))
        qf = os.path.realpath(quantem.__file__)
        if not qf.startswith(src + os.sep):
            raise SystemExit(f"BROKEN: quantem imported from {qf}, expected under {src}")
        try:
            head = subprocess.run(["git", "-C", self.repo, "rev-parse", "--short", "HEAD"], capture_output=True, text=True).stdout.strip()
            dirty = bool(subprocess.run(["git", "-C", self.repo, "status", "--porcelain", "--untracked-files=no"], capture_output=True, text=True).stdout.strip())
        except Exception:
            head, dirty = "?", False
        self.repo_head, self.repo_dirty = head, dirty
        self.say(f"quantem from {src} (HEAD {head}{' +dirty' if dirty else ''}) tier={self.tier} seed={self.seed} jobs={self.jobs}")
        try:
            import torch

            torch.set_num_threads(1)
        except Exception:
            pass
        neutralise_overheads()

    # ------------------------------------------------------------------ recording
    def fail(self, cls, case, msg):
        self.tally.fail(cls, case, msg)

    def case(self, *a, **k):
        self.tally.case(*a, **k)

    def sample(self, s, cap=5):
        self.tally.sample(s, cap)

    def assume(self, *texts):
        for t in texts:
            if t not in self.assumptions:
                self.assumptions.append(t)

    def selftest(self, fn, what="determinism self-test"):
        """Run fn twice in fresh objects; the two observation records must be identical."""
        a = fn()
        b = fn()
        da, db = digest(repr(a).encode()), digest(repr(b).encode())
        if da != db:
            raise Broken(f"{what}: two executions of the same case differ ({da} vs {db})")
        self.coverage.setdefault("determinism_selftests", 0)
        self.coverage["determinism_selftests"] += 1

    # ------------------------------------------------------------------ parallel map
    def pool(self):
        if self._pool is None:
            self._pool = mp.get_context("fork").Pool(self.jobs, initializer=_worker_init)
        return self._pool

    def pmap(self, func, items, chunk=None, label="", **kw):
        """Run func(item, **kw) -> Tally for every item on the worker pool; merge into ctx.tally.

        Enumeration order is the order of `items`; sharding is by contiguous chunks. Returns the
        merged Tally of this call (already merged into ctx.tally)."""
        items = list(items)
        total = len(items)
        if total == 0:
            return Tally()
        if chunk is None:
            chunk = max(1, min(256, total // (self.jobs * 8) or 1))
        chunks = [(func, items[i : i + chunk], kw) for i in range(0, total, chunk)]
        merged = Tally()
        if self.jobs <= 1 or len(chunks) == 1:
            for c in chunks:
                merged.merge(_call_chunk(c))
                self._check_ceiling()
        else:
            it = self.pool().imap_unordered(_call_chunk, chunks)
            done = 0
            while done < len(chunks):
                try:
                    r = it.next(timeout=5.0)
                except mp.TimeoutError:
                    self._check_ceiling()
                    self.tick(f"{label} {done}/{len(chunks)} chunks, {merged.n} evaluations, {merged.nfails} failures")
                    continue
                except StopIteration:
                    break
                merged.merge(r)
                done += 1
                self.tick(f"{label} {done}/{len(chunks)} chunks, {merged.n} evaluations, {merged.nfails} failures")
                self._check_ceiling()
        self.tally.merge(merged)
        self.say(f"{label} done: {total} items, {merged.n} evaluations, {merged.nfails} failures")
        return merged

    def _check_ceiling(self):
        if self.elapsed() > self.ceiling:
            self.capped = True
            raise CeilingHit()

    def check_ceiling(self):
        self._check_ceiling()

    def close(self):
        if self._pool is not None:
            self._pool.terminate()
            self._pool = None


class CeilingHit(Exception):
    pass


# ---------------------------------------------------------------------- known findings
def load_known():
    if not os.path.exists(KNOWN):
        return []
    with open(KNOWN) as f:
        return json.load(f).get("findings", [])


def _matches(entry, cls):
    m = entry.get("match", {})
    if not m:
        return False
    for k, v in m.items():
        if k not in cls:
            return False
        if isinstance(v, list):
            if cls[k] not in v:
                return False
        elif cls[k] != v:
            return False
    return True


# ---------------------------------------------------------------------- evidence
def write_evidence(ctx, nviol):
    t = ctx.tally
    cov = dict(ctx.coverage)
    cov.setdefault("evaluations", t.n)
    cov.setdefault("distinct_nontrivial", len(t.nontrivial))
    cov.setdefault("distinct_outcomes", len(t.outcomes))
    cov.setdefault("rule", ctx.rule)
    cov.setdefault("samples", t.samples[:8] if t.samples else [])
    cov["exhaustive"] = bool(cov.get("exhaustive", True)) and not ctx.capped
    if ctx.capped:
        cov["cap_hit"] = f"wall-clock ceiling {ctx.ceiling:.0f}s"
    if ctx.seam_missing:
        cov["seam_missing"] = ctx.seam_missing
    for k, v in t.extra.items():
        cov.setdefault(f"count_{k}", int(v))
    for k, v in sorted(t.maxima.items()):
        cov.setdefault(f"max_{k}", v)
    cov["repo_head"] = getattr(ctx, "repo_head", "?")
    cov["repo_dirty"] = getattr(ctx, "repo_dirty", False)
    ev = {
        "property_id": ctx.prop,
        "tier": ctx.tier,
        "seed": ctx.seed,
        "level": ctx.level,
        "coverage": cov,
        "assumptions": ctx.assumptions,
        "wall_s": round(ctx.elapsed(), 2),
        "violations": nviol,
    }
    try:
        import jsonschema

        with open(EVIDENCE_SCHEMA) as f:
            jsonschema.validate(ev, json.load(f))
    except ImportError:
        pass
    if not ctx.write_evidence:
        return ev
    os.makedirs(os.path.join(VERIF, "evidence"), exist_ok=True)
    p = os.path.join(VERIF, "evidence", f"{ctx.prop}.json")
    tmp = p + ".tmp"
    with open(tmp, "w") as f:
        json.dump(ev, f, indent=1, sort_keys=False, default=repr)
        f.write("\n")
    os.replace(tmp, p)
    return ev


# ---------------------------------------------------------------------- run / replay
def _watchdog(ctx):
    def loop():
        while True:
            time.sleep(5)
            if ctx.elapsed() > ctx.ceiling + 60:
                print(f"[{ctx.prop}] BROKEN: hard wall-clock ceiling exceeded, aborting", flush=True)
                os._exit(3)

    th = threading.Thread(target=loop, daemon=True)
    th.start()


def finish(ctx):
    """Classify recorded failures, write replay artefacts and evidence, return the exit code."""
    t = ctx.tally
    known = [e for e in load_known() if e.get("property") == ctx.prop and e.get("status") == "known"]
    harness_errors = [f for f in t.fails if "harness_error" in f["cls"]]
    real = [f for f in t.fails if "harness_error" not in f["cls"]]
    seen_known = {}
    viol = []
    for f in real:
        hit = next((e for e in known if _matches(e, f["cls"])), None)
        if hit is not None:
            # total number of failing points of this class (not only the few kept as artefacts)
            seen_known.setdefault(hit["what"], {})[digest(f["cls"])] = t.fail_classes.get(digest(f["cls"]), 1)
        else:
            viol.append(f)
    for what, classes in seen_known.items():
        print(f"KNOWN-FINDING: property={ctx.prop} {what} [{sum(classes.values())} failing points in {len(classes)} class(es) on this run]", flush=True)
    ctx.coverage["known_findings_seen"] = len(seen_known)
    rc = 0
    if viol:
        os.makedirs(os.path.join(VERIF, "replays", ctx.prop), exist_ok=True)
        shown = Counter()
        for f in viol:
            d = digest({"cls": f["cls"], "case": f["case"]})
            path = os.path.join(VERIF, "replays", ctx.prop, f"{d}.json")
            with open(path, "w") as fh:
                json.dump({"property": ctx.prop, "cls": f["cls"], "case": f["case"], "msg": f["msg"], "seed": ctx.seed, "tier": ctx.tier}, fh, indent=1)
            key = digest(f["cls"])
            shown[key] += 1
            # at most 2 lines per failure class and 16 lines in total; every violation still gets a replay file
            if shown[key] > 2 or sum(min(v, 2) for v in shown.values()) > 16:
                continue
            print(f"  violation class={json.dumps(f['cls'], sort_keys=True)} :: {f['msg'][:300]}", flush=True)
            print(f"VIOLATION property={ctx.prop} replay={path}", flush=True)
        if t.nfails > len(t.fails):
            print(f"  ({t.nfails} failing points in {len(t.fail_classes)} classes in total; {len(t.fails)} kept, at most {PER_CLASS} per class)", flush=True)
        rc = 1
    if harness_errors:
        for f in harness_errors[:5]:
            print(f"BROKEN: harness error on {json.dumps(f['case'])[:300]}\n{f['msg']}", flush=True)
        rc = rc or 2
    nontriv = ctx.coverage.get("distinct_nontrivial", len(t.nontrivial))
    if rc == 0 and nontriv < 2 and not ctx.capped:
        print(f"BROKEN: vacuous enumeration (distinct non-trivial cases = {nontriv})", flush=True)
        rc = 2
    try:
        write_evidence(ctx, len(viol))
    except Exception as e:
        print(f"BROKEN: evidence does not validate: {e}", flush=True)
        rc = rc or 2
    if ctx.capped:
        print(f"[{ctx.prop}] wall-clock ceiling hit; partial evidence written; not exhaustive", flush=True)
        rc = rc or 3
    cov = ctx.coverage
    ctx.say(
        f"finished rc={rc} evaluations={cov.get('evaluations', t.n)} distinct_nontrivial={nontriv} "
        f"outcomes={len(t.outcomes)} states={cov.get('states', '-')} transitions={cov.get('transitions', '-')} "
        f"violations={len(viol)} known={len(seen_known)}"
    )
    return rc


def do_run(ctx, mod):
    ctx.level = getattr(mod, "LEVEL", "exploration")
    ctx.rule = getattr(mod, "RULE", "")
    _watchdog(ctx)
    try:
        mod.run(ctx)
    except CeilingHit:
        pass
    except Broken as e:
        real = [f for f in ctx.tally.fails if "harness_error" not in f["cls"]]
        if not real:
            print(f"BROKEN: {e}", flush=True)
            ctx.close()
            return 2
        # a vacuity guard tripped AFTER failures were recorded: a defect may legitimately cut an enumeration short, and a
        # recorded failure must never be pre-empted by "broken" — report the failures (exit 1), mention the guard
        print(f"note: a vacuity guard tripped after {ctx.tally.nfails} failing points were recorded ({e}); reporting the failures", flush=True)
        ctx.coverage["exhaustive"] = False
        ctx.coverage["guard_tripped_after_failures"] = str(e)[:300]
    except Exception:
        traceback.print_exc()
        print("BROKEN: check crashed", flush=True)
        ctx.close()
        return 2
    finally:
        ctx.close()
    return finish(ctx)


def do_replay(ctx, mod, path):
    with open(path) as f:
        rec = json.load(f)
    ctx.write_evidence = False
    ctx.say(f"replaying {path}: class={rec.get('cls')}")
    if "seed" in rec:
        ctx.seed = rec["seed"]
    case = rec["case"]
    if isinstance(case, dict) and "__func__" in case:
        # generic replay of "the library raised on this lattice point": call the worker again
        func = getattr(mod, case["__func__"])
        item = case["__item__"]
        item = tuple(tuple(x) if isinstance(x, list) else x for x in item) if isinstance(item, list) else item
        r = _call_chunk((func, [item], case.get("__kw__") or {}))
        ctx.tally.merge(r)
    else:
        mod.replay(ctx, case)
    if ctx.tally.fails:
        for f in ctx.tally.fails[:5]:
            print(f"  reproduced: {f['msg']}", flush=True)
        print(f"VIOLATION property={ctx.prop} replay={path}", flush=True)
        return 1
    print("  not reproduced (the case passes on this tree)", flush=True)
    return 0


def setup_selfcheck():
    ok = True
    try:
        import jsonschema  # noqa
        import numpy  # noqa
        import quantem
        import torch  # noqa

        print("quantem from", quantem.__file__)
        with open(MANIFEST_SCHEMA) as f:
            schema = json.load(f)
        with open(os.path.join(VERIF, "MANIFEST.json")) as f:
            jsonschema.validate(json.load(f), schema)
        print("MANIFEST.json validates")
        json.load(open(KNOWN))
        print("known_findings.json parses")
    except Exception as e:
        print("setup failed:", e)
        ok = False
    return 0 if ok else 1
