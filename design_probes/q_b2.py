import numpy as np, torch, math, time, itertools, copy
from quantem.core.utils.imaging_utils import UnionFindPhase, _final_offsets, _find_wrap
def grid_edges(H,W,wrap):
    idx=np.arange(H*W).reshape(H,W); E=[]
    for r in range(H):
        for c in range(W):
            if c+1<W or (wrap and W>2): E.append((idx[r,c], idx[r,(c+1)%W]))
            if r+1<H or (wrap and H>2): E.append((idx[r,c], idx[(r+1)%H,c]))
    return E
def explore(H,W,wrap,field):
    N=H*W; E=grid_edges(H,W,wrap)
    wrapped=(field+np.pi)%(2*np.pi)-np.pi; kk=np.round((field-wrapped)/(2*np.pi)).astype(int).ravel()  # true wrap counts: field = wrapped + 2pi*kk
    phi=torch.tensor(wrapped.ravel(),dtype=torch.float32)
    inc=[int(_find_wrap(phi[a],phi[b])) for a,b in E]
    def fresh(): return UnionFindPhase(N)
    def key(uf,used): return (tuple(uf.parent.tolist()),tuple(uf.rank.tolist()),tuple(uf.offset.tolist()))
    def clone(uf):
        u=UnionFindPhase.__new__(UnionFindPhase); u.parent=uf.parent.clone(); u.rank=uf.rank.clone(); u.offset=uf.offset.clone(); return u
    def invariant(uf):
        incs=_final_offsets(uf).numpy()
        roots=[]
        for i in range(N):
            r=i
            while uf.parent[r]!=r: r=int(uf.parent[r])
            roots.append(r)
        for i in range(N):
            for j in range(i+1,N):
                if roots[i]==roots[j]:
                    if round(incs[i]-incs[j])!=kk[i]-kk[j]: return False,(i,j,incs[i]-incs[j],kk[i]-kk[j])
        return True,None
    start=fresh(); seen={key(start,0)}; frontier=[(start,0)]; trans=0; t0=time.time(); maxd=0
    while frontier:
        nxt=[]
        for uf,used in frontier:
            for e in range(len(E)):
                ra,_=uf.find_root_and_offset(int(E[e][0])); rb,_=uf.find_root_and_offset(int(E[e][1]))
                if int(ra)==int(rb): continue
                u=clone(uf); u.union(int(E[e][0]),int(E[e][1]),inc[e]); trans+=1
                ok,info=invariant(u)
                if not ok: return ("VIOLATION",info,E[e])
                k=key(u,used|(1<<e))
                if k not in seen: seen.add(k); nxt.append((u,used|(1<<e)))
        frontier=nxt; maxd+=1
        if time.time()-t0>240: return ("CAP",len(seen),trans,maxd)
    return (len(seen),trans,maxd,round(time.time()-t0,1))
yy,xx=np.mgrid[:3,:3].astype(float)
for (H,W,wrap) in [(2,2,False),(2,3,False),(3,3,False)]:
    yy,xx=np.mgrid[:H,:W].astype(float)
    f=2.6*xx+1.9*yy  # neighbour differences <pi, total range > 2pi
    print((H,W,wrap),"edges",len(grid_edges(H,W,wrap)),explore(H,W,wrap,f))
for (H,W,wrap) in [(2,4,False),(3,3,True)]:
    yy,xx=np.mgrid[:H,:W].astype(float)
    f=(2.6*xx+1.9*yy) if not wrap else 2.5*np.sin(2*np.pi*xx/W)+2*np.cos(2*np.pi*yy/H)
    print((H,W,wrap),"edges",len(grid_edges(H,W,wrap)),explore(H,W,wrap,f))
