#!/venv/bin/python
"""Runner for the quantem model-checking checks.

    run.py <ID> [--tier quick|thorough] [--replay FILE] [--jobs N]
    run.py --setup            (validates interpreter, editable install, schemas; builds nothing)
    run.py --list

Contract (MANIFEST.json): exit 0 = property held on everything explored; exit 1 + a line
"VIOLATION property=<id> replay=<path>" = a violation not listed in known_findings.json;
exit 2 = the check itself is broken (non-determinism, vacuous enumeration, crash);
exit 3 = wall-clock ceiling hit (partial evidence written, not exhaustive).

The runner re-executes itself once with a controlled environment so that nothing outside the
harness (hash seed, user config dir, TMPDIR, BLAS threads, GUI back-ends) can influence a verdict.
"""
from __future__ import annotations

import argparse
import importlib
import json
import os
import shutil
import sys
import tempfile

HERE = os.path.dirname(os.path.abspath(__file__))
IDS = [f"C{i:02d}" for i in range(1, 21)]


def _reexec_controlled(argv):
    if os.environ.get("QUANTEM_VERIF_CHILD") == "1":
        return
    scratch = tempfile.mkdtemp(prefix="qverif-")
    env = dict(os.environ)
    env.update(
        QUANTEM_VERIF_CHILD="1",
        QUANTEM_VERIF="1",
        QUANTEM_VERIF_SCRATCH=scratch,
        PYTHONHASHSEED="0",
        QUANTEM_CONFIG=os.path.join(scratch, "quantem-config"),
        TMPDIR=os.path.join(scratch, "tmp"),
        HOME=os.path.join(scratch, "home"),
        MPLBACKEND="Agg",
        MPLCONFIGDIR=os.path.join(scratch, "mpl"),
        OMP_NUM_THREADS="1",
        MKL_NUM_THREADS="1",
        OPENBLAS_NUM_THREADS="1",
        NUMEXPR_NUM_THREADS="1",
        TQDM_DISABLE="1",
        PYTHONUNBUFFERED="1",
        PYTHONDONTWRITEBYTECODE="1",
        CUDA_VISIBLE_DEVICES="",
    )
    for d in ("quantem-config", "tmp", "home", "mpl"):
        os.makedirs(os.path.join(scratch, d), exist_ok=True)
    repo = os.environ.get("VERIF_REPO", "/repo")
    pp = [os.path.join(repo, "src"), HERE]
    if env.get("PYTHONPATH"):
        pp.append(env["PYTHONPATH"])
    env["PYTHONPATH"] = os.pathsep.join(pp)
    env["VERIF_REPO"] = repo
    import subprocess

    try:
        rc = subprocess.call([sys.executable, "-u", os.path.abspath(__file__)] + argv, env=env)
    finally:
        # removed by exact path, never by pattern
        shutil.rmtree(scratch, ignore_errors=True)
    sys.exit(rc)


def main():
    argv = sys.argv[1:]
    _reexec_controlled(argv)
    ap = argparse.ArgumentParser()
    ap.add_argument("id", nargs="?")
    ap.add_argument("--tier", default=os.environ.get("VERIF_TIER", "quick"), choices=["quick", "thorough"])
    ap.add_argument("--replay")
    ap.add_argument("--jobs", type=int, default=int(os.environ.get("VERIF_JOBS", "0")))
    ap.add_argument("--setup", action="store_true")
    ap.add_argument("--list", action="store_true")
    ap.add_argument("--no-evidence", action="store_true", help="do not rewrite evidence (mutation runs)")
    a = ap.parse_args(argv)

    sys.path.insert(0, HERE)
    from mc import harness

    if a.setup:
        sys.exit(harness.setup_selfcheck())
    if a.list:
        for i in IDS:
            if os.path.exists(os.path.join(HERE, "checks", f"{i}.py")):
                print(i)
        return 0
    if not a.id:
        ap.error("property id required")
    pid = a.id.upper()
    seed = int(os.environ.get("VERIF_SEED", "0"))
    ctx = harness.Ctx(pid, a.tier, seed, jobs=a.jobs, write_evidence=not a.no_evidence)
    ctx.bind_repo()
    mod = importlib.import_module(f"checks.{pid}")
    if a.replay:
        sys.exit(harness.do_replay(ctx, mod, a.replay))
    sys.exit(harness.do_run(ctx, mod))


if __name__ == "__main__":
    main()
