#!/usr/bin/env python3
"""tools/seed_prompt.py <PROP> <DIR> <round> : the brief of seeded/PROMPT_TEMPLATE.md filled in for one property."""
import json, re, sys
prop, d, rnd = sys.argv[1], sys.argv[2], int(sys.argv[3])
P = {json.loads(l)["id"]: json.loads(l) for l in open("/verif/properties.jsonl")}[prop]
t = open("/verif/seeded/PROMPT_TEMPLATE.md").read()
base = t.split("\n\n", 1)[1].split("\n--- Round 2 addition")[0]
note = ""
if rnd >= 2:
    m = re.search(r"--- Round %d addition[^\n]*---\n(.*?)(?=\n--- Round|\Z)" % rnd, t, re.S)
    note = m.group(1).strip() + "\n\n"
base = base.replace("YOUR TASK:", note + "YOUR TASK:")
q = P["quantifier"]["text"]
print(base.format(DIR=d, ID=prop, STATEMENT=P["statement"], QUANTIFIER=q, FILES=", ".join(P["anchors"]["files"])))
