import numpy as np, warnings, torch, math, itertools
warnings.simplefilter("ignore"); torch.set_num_threads(1)
import quantem.diffractive_imaging.direct_ptychography as D
D.gc.collect=lambda *a,**k:0
exec(open("/verif/design_probes/p12.py").read().split("dp,vbf,mask=make(abers")[0])
from quantem.core.datastructures import Dataset2d, Dataset3d
from quantem.diffractive_imaging.complex_probe import evaluate_probe, spatial_frequencies, polar_coordinates
co={"C10":-120.0,"C12":25.0,"phi12":0.4}
dp,vbf,mask=make(abers=co,rot=0.2)
def with_stack(v):
    d,_,_=make(abers=co,rot=0.2); d.vbf_stack=torch.tensor(v); d._preprocess(); return d
rng=np.random.default_rng(3); x=1+0.1*rng.normal(size=vbf.shape).astype(np.float32); y=1+0.1*rng.normal(size=vbf.shape).astype(np.float32)
full=dp.bf_mask.clone()
def W(d,m,rot=0.2):
    kxa,kya=spatial_frequencies(d.gpts,d.sampling,rotation_angle=rot); k,phi=polar_coordinates(kxa,kya)
    pr=evaluate_probe(k*d.wavelength,phi,d.semiangle_cutoff,d.angular_sampling,d.wavelength,aberration_coefs=co); return float(pr[m].abs().square().sum())
cb1,cb2=dp._make_checkerboard_bf_masks(dp.gpts,full)
for kern in ["ssb","obf","mf","prlx","icom"]:
    for up in [1,2]:
        kw=dict(deconvolution_kernel=kern,upsampling_factor=up)
        rx=with_stack(x).reconstruct(**kw).corrected_stack; ry=with_stack(y).reconstruct(**kw).corrected_stack; rz=with_stack(2*x-3*y).reconstruct(**kw).corrected_stack
        lin=float((rz-(2*rx-3*ry)).abs().max()/rz.abs().max())
        d=with_stack(x); f=d.reconstruct(**kw).corrected_bf*W(d,full); a=d.reconstruct(bf_mask=cb1,**kw).corrected_bf*W(d,cb1); b=d.reconstruct(bf_mask=cb2,**kw).corrected_bf*W(d,cb2)
        rec=float((a+b-f).abs().max()/f.abs().max())
        print(kern,up,"linearity",f"{lin:.1e}","recombination",f"{rec:.1e}")
