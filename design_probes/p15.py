import numpy as np, warnings, torch, itertools
warnings.simplefilter("ignore")
from quantem.diffractive_imaging.object_models import ObjectPixelated
from quantem.diffractive_imaging.probe_models import ProbePixelated
from quantem.diffractive_imaging.ptycho_utils import fourier_shift_expand, fourier_translation_operator, sum_patches
torch.manual_seed(0)
print("== object constraints")
for ot in ["complex","pure_phase","potential"]:
    for S in [1,3]:
        for mask_kind in ["none","ones","binary","frac"]:
            for afm in [False,True]:
                for ident in [False,True]:
                    om=ObjectPixelated.from_uniform(num_slices=S,obj_type=ot,slice_thicknesses=2.0 if S>1 else None)
                    om._initialize_obj((S,5,6),sampling=(0.5,0.5))
                    raw = (torch.randn(S,5,6)*3) if ot=="potential" else torch.polar(torch.rand(S,5,6)*3, torch.rand(S,5,6)*6.28-3.14)
                    om._obj=torch.nn.Parameter(raw.type(om.dtype))
                    if mask_kind!="none":
                        m={"ones":torch.ones(5,6),"binary":(torch.rand(5,6)>0.4).float(),"frac":torch.rand(5,6)}[mask_kind]
                        om.mask=m
                    om.constraints["apply_fov_mask"]=afm; om.constraints["identical_slices"]=ident
                    try:
                        o=om.obj.detach()
                    except Exception as e:
                        print(ot,S,mask_kind,afm,ident,"EXC",type(e).__name__,str(e)[:80]); continue
                    amp=o.abs() if ot!="potential" else o
                    msg=[]
                    if ot=="complex" and amp.max()>1+1e-6: msg.append(f"amp>1 {amp.max():.3f}")
                    if ot=="pure_phase" and (amp-1).abs().max()>1e-6 and not ident: msg.append(f"amp!=1 min {amp.min():.3f}")
                    if ot=="potential" and o.min()<0: msg.append("neg")
                    if ident and S>1 and (o-o[0:1]).abs().max()>1e-6: msg.append("slices differ")
                    o2=om.apply_hard_constraints(o, mask=om.mask if mask_kind!="none" else None).detach()
                    a2=o2.abs() if ot!="potential" else o2
                    if (a2-amp).abs().max()>1e-5: msg.append(f"non-idempotent {float((a2-amp).abs().max()):.3f}")
                    if msg: print(ot,S,mask_kind,"afm",afm,"ident",ident,msg)
print("== probe orthogonalization")
for M in [1,2,3,5]:
    pm=ProbePixelated.from_array(torch.randn(M,6,8,dtype=torch.complex64).numpy(), probe_params={"energy":80e3})
    base=torch.randn(1,6,8,dtype=torch.complex64)
    P=torch.randn(M,6,8,dtype=torch.complex64)*0.1+base*torch.arange(1,M+1).view(-1,1,1)  # highly correlated
    Q=pm._probe_orthogonalization_constraint(P)
    G=(Q.reshape(M,-1)@Q.reshape(M,-1).conj().T); off=(G-torch.diag(torch.diag(G))).abs().max()
    ints=torch.diag(G).real; orig=(P.abs()**2).sum((1,2))
    print(M,"offdiag",float(off/ints.max()),"sorted desc",bool((ints[:-1]>=ints[1:]).all()),"multiset",float((ints.sort().values-orig.sort().values).abs().max()/orig.max()))
print("== operators")
x=torch.randn(2,7,10,dtype=torch.complex128)
for s in [(0.,0.),(1.,0.),(3.,-2.),(0.3,0.7)]:
    y=fourier_shift_expand(x[0],torch.tensor([s]))[0]
    print("shift",s,"energy rel",float((y.abs()**2).sum()/(x[0].abs()**2).sum()-1),"roll eq" if all(float(v).is_integer() for v in s) and torch.allclose(y,torch.roll(x[0],(int(s[0]),int(s[1])),(0,1)),atol=1e-5) else "")
