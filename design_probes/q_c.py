import os, tempfile, copy, time, json, warnings
os.environ["QUANTEM_CONFIG"]=tempfile.mkdtemp()
warnings.simplefilter("ignore")
from quantem.core import config as C
SNAP=(copy.deepcopy(C.config), copy.deepcopy(C.defaults))
def restore():
    C.config.clear(); C.config.update(copy.deepcopy(SNAP[0])); C.defaults[:]=copy.deepcopy(SNAP[1])
def canonkey(k): return k.replace("-","_")
EVENTS=[]
for k in ["vb","a.b","a.c","x-y","x_y","a.x-y","a.x_y"]:
    for v in [1,2]:
        EVENTS.append(("set",k,v))
EVENTS+= [("setkw","a__d",1),("setkw","x_y",2),("setmap",("vb","a.b"),(2,2)),("setnested","a",{"e":1}),("setnested","n",{"p":{"q":1}}),("set","n.p.r",2)]
EVENTS+= [("dflt",{"vb":10}),("dflt",{"a":{"b":10}}),("dflt",{"a":{"z":20}}),("dflt",{"x-y":10}),("dflt",{"new":{"k":10}}),("refresh",)]
EVENTS+= [("dev",d) for d in ["cpu","cpu:1","gpu","cuda:0","mps","tpu",-1,3.5]]
def apply_impl(ev):
    t=ev[0]
    if t=="set": C.set({ev[1]:ev[2]})
    elif t=="setkw": C.set(**{ev[1]:ev[2]})
    elif t=="setmap": C.set(dict(zip(ev[1],ev[2])))
    elif t=="setnested": C.set({ev[1]:copy.deepcopy(ev[2])})
    elif t=="dflt": C.update_defaults(copy.deepcopy(ev[1]))
    elif t=="refresh": C.refresh()
    elif t=="dev":
        try: C.set({"device":ev[1]})
        except (RuntimeError,ValueError,TypeError): pass
def state():
    return json.dumps([C.config, C.defaults[len(SNAP[1]):]], sort_keys=True, default=str)
t0=time.time(); seen={}; frontier=[[]]; restore(); seen[state()]=[]; trans=0
for depth in range(1,5):
    nxt=[]
    for hist in frontier:
        for ev in EVENTS:
            restore()
            for e in hist: apply_impl(e)
            apply_impl(ev); trans+=1
            s=state()
            if s not in seen: seen[s]=hist+[ev]; nxt.append(hist+[ev])
    frontier=nxt
    print("depth",depth,"states",len(seen),"transitions",trans,"frontier",len(frontier),"t",round(time.time()-t0,1))
    if time.time()-t0>150: break
