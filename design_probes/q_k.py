import numpy as np, torch, tempfile, os, warnings, logging
from pathlib import Path
warnings.simplefilter("ignore")
from quantem.core.io.serialize import AutoSerialize, load
class A(AutoSerialize): pass
class B(AutoSerialize): pass
def rt(val, store="zip", **kw):
    a=A(); a.x=val; d=tempfile.mkdtemp(); p=os.path.join(d,"o.zip" if store=="zip" else "o")
    a.save(p,store=store,**kw); return load(p).__dict__.get("x","<MISSING>")
def mk():
    b=B(); b.v=1; b.arr=np.arange(2); return b
lin=torch.nn.Linear(2,1); opt=torch.optim.Adam(lin.parameters(),lr=0.1); sch=torch.optim.lr_scheduler.ExponentialLR(opt,0.9)
cases={
 "np.complex64 scalar":np.complex64(1+2j),"np.uint64 big":np.uint64(2**63+5),"np.bool_":np.bool_(True),"np.str_":np.str_("ab"),"np.int64":np.int64(-3),
 "tensor0d":torch.tensor(3.0),"tensor_empty":torch.zeros(0,2),"tensor_int":torch.arange(3),"tensor_bool":torch.tensor([True,False]),
 "module":lin,"sequential":torch.nn.Sequential(torch.nn.Linear(1,1)),"modulelist_attr":torch.nn.ModuleList([torch.nn.Linear(1,1)]),"optimizer":opt,"scheduler":sch,
 "rng":np.random.default_rng(0),"torchgen":torch.Generator(),"logger":logging.getLogger("q"),
 "nested_in_list":[mk(),1],"nested_in_dict":{"o":mk()},"nested_in_tuple":(mk(),),"nested_in_set_of_str":{"p","q"},
 "dict_path":{"p":Path("x/y")},"list_path":[Path("a")],"dict_none":{"n":None},"dict_nested":{"a":{"b":{"c":[1,(2,3)]}}},
 "list_0d":[np.array(2.0),"s"],"list_empty_arr":[np.zeros((0,2)),"s"],"dict_0d":{"z":np.array(5)},
 "list_bool_only":[True,False],"tuple_int":(1,2,3),"list_float_nan":[1.0,float("nan")],"list_int_big":[2**63,1],"list_complex":[1+2j,3],
 "list_np_mixed":[np.int8(1),2.5],"set_of_tuples":{(1,2),(3,4)},"frozenset":frozenset({1,2}),"bytes_empty":b"","bytearray":bytearray(b"ab"),
 "str_with_slash":"a/b","dict_key_space":{"a b":1},"dict_key_dot":{"a.b":1},"dict_key_digit":{"0":1,"1":2},"dict_key_is_path":{"x.is_path":1},
 "range":range(3),"slice":slice(1,2),"dtype":np.dtype("f4"),"type":int,"ellipsis":Ellipsis,
 "arr_dt64":np.array(["2020-01-01"],dtype="datetime64[D]"),"arr_obj":np.array([1,"a"],dtype=object),"arr_struct":np.zeros(2,dtype=[("a","i4"),("b","f4")]),
 "arr_noncontig":np.arange(12).reshape(3,4)[:,::2],"arr_bigendian":np.arange(3,dtype=">i4"),"arr_f_order":np.asfortranarray(np.arange(6.).reshape(2,3)),
 "masked":np.ma.masked_array([1,2],mask=[0,1]),"matrix":np.matrix([[1,2]]),
}
def show(v):
    if isinstance(v,np.ndarray): return f"ndarray {v.dtype} {v.shape} {v.tolist()!r:.40}"
    return f"{type(v).__name__} {v!r:.70}"
for k,v in cases.items():
    try:
        r=rt(v); print(f"{k:22s} in=<{show(v):.60}>  out=<{show(r):.80}>")
    except Exception as e: print(f"{k:22s} EXC {type(e).__name__}: {str(e)[:110]}")
