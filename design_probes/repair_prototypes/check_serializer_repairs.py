import sys; sys.path.insert(0,"/tmp/qscratch/src")
import numpy as np, torch, tempfile, os, warnings
warnings.simplefilter("ignore")
import quantem; assert quantem.__file__.startswith("/tmp/qscratch"), quantem.__file__
from quantem.core.io.serialize import AutoSerialize, load
class A(AutoSerialize): pass
def rt(v,store="zip"):
    a=A(); a.x=v; d=tempfile.mkdtemp(); p=os.path.join(d,"o.zip" if store=="zip" else "o"); a.save(p,store=store); return load(p)
for name,v in {"0d":np.array(7),"0d in dict":{"z":np.array(5)},"set":{"a","b"},"set tuples":{(1,2)},"list set":[{1,2}],"complex in list":[1+2j,3],"np complex":np.complex64(1+2j),"emptyset":set(),"empty arr":np.zeros((0,3)),"bytes in tuple":(b"ab",1)}.items():
    for st in ("zip","dir"):
        l=rt(v,st); print(name,st,repr(l.x), sorted(vars(l)))
for name,v in {"numeric set":{1,2,3},"list numeric set":[{1,2}],"float set":{1.5,2.5},"mixed set":{1,"a"},"frozenset":frozenset({1})}.items():
    l=rt(v); print(name,repr(l.x))
# C08 behaviour
import zarr, zipfile
class Top(AutoSerialize): pass
def build():
    t=Top(); t.x=3; t.arr=np.ones(4); t.lst=[np.zeros(2),"s"]; t.t=torch.ones(2); i=A(); i.a=1; t.inner=i; return t
counter={"n":0,"k":None}
def tick():
    counter["n"]+=1
    if counter["k"] is not None and counter["n"]-1==counter["k"]: raise OSError("injected")
oc=zarr.Group.create_array; oa=zarr.core.attributes.Attributes.__setitem__; oz=zipfile.ZipFile.write; orq=zarr.Group.require_group
zarr.Group.create_array=lambda self,*a,**k:(tick(),oc(self,*a,**k))[1]; zarr.core.attributes.Attributes.__setitem__=lambda self,k,v:(tick(),oa(self,k,v))[1]; zipfile.ZipFile.write=lambda self,*a,**k:(tick(),oz(self,*a,**k))[1]; zarr.Group.require_group=lambda self,*a,**k:(tick(),orq(self,*a,**k))[1]
for store in ("dir","zip"):
    for pre in ("absent","old"):
        d=tempfile.mkdtemp(); p=os.path.join(d,"o.zip" if store=="zip" else "o"); counter.update(n=0,k=None); build().save(p,store=store); N=counter["n"]
        res={}
        for k in range(N):
            d=tempfile.mkdtemp(); p=os.path.join(d,"o.zip" if store=="zip" else "o")
            if pre=="old":
                counter.update(n=0,k=None); o=A(); o.old=1; o.save(p,store=store)
            counter.update(n=0,k=k)
            try: build().save(p,store=store,mode="o"); out="nofail"
            except OSError: out="failed"
            counter["k"]=None
            if not os.path.exists(p): st="absent"
            else:
                try: l=load(p); st="complete-old" if set(vars(l))=={"old"} else ("PARTIAL" if set(vars(l))!={"x","arr","lst","t","inner"} else "complete-new")
                except Exception as e: st="unreadable"
            res[st]=res.get(st,0)+1
        print(store,pre,"ops",N,res, "siblings", os.listdir(d))
