"""Third module of C01's class-identity family: a class of the same name that is a SUBCLASS of its namesake."""
from checks import _serial_twins_a as _a


class Params(_a.Params):  # isinstance(c.Params(), a.Params) holds; the classes differ
    KIND = "c.Params"
