import numpy as np, warnings, torch, time, sys, tempfile, os, copy
warnings.simplefilter("ignore"); torch.set_num_threads(1)
import quantem.diffractive_imaging.ptychography as PT
PT.gc.collect=lambda *a,**k:0
exec(open("/verif/design_probes/p10.py").read().split("opt={")[0])
def opts(kind): return {"object":{"type":kind,"lr":5e-2 if kind!="sgd" else 0.5},"probe":{"type":kind,"lr":1e-3}}
scheds={"none":None,"exp":{"object":{"type":"exp","gamma":0.8},"probe":{"type":"exp","gamma":0.9}},"linear":{"object":{"type":"linear","start_factor":0.2,"total_iters":3}},"plateau":{"object":{"type":"plateau","patience":0,"cooldown":0,"factor":0.5,"threshold":0.5}},"cyclic":{"object":{"type":"cyclic","step_size_up":2}}}
n=4
t0=time.time()
for okind in ["sgd","adam","adamw"]:
  for sname,sp in scheds.items():
    for ot,M in [("complex",1),("potential",2)]:
        ref=make(obj_type=ot,M=M); ref.reconstruct(num_iters=n,optimizer_params=opts(okind),scheduler_params=copy.deepcopy(sp),reset=True)
        res=[]
        for k in [1,2]:
            b=make(obj_type=ot,M=M); b.reconstruct(num_iters=k,optimizer_params=opts(okind),scheduler_params=copy.deepcopy(sp),reset=True)
            d=tempfile.mkdtemp()
            for path in ["raw","noraw+dset","clone"]:
                try:
                    if path=="raw":
                        p=os.path.join(d,f"a{k}.zip"); b.save(p,save_raw_data=True,verbose=0); c=Ptychography.from_file(p,auto_reload_dataset=False)
                    elif path=="noraw+dset":
                        p=os.path.join(d,f"b{k}"); b.save(p,store="dir",save_raw_data=False,verbose=0); fresh=make(obj_type=ot,M=M).dset; c=Ptychography.from_file(p,dset=fresh)
                    else: c=b.clone()
                    c.verbose=0
                    same_now=np.allclose(c.iter_losses,b.iter_losses) and all(np.allclose(c.iter_lrs[x],b.iter_lrs[x]) for x in b.iter_lrs) and np.allclose(c.obj,b.obj,atol=1e-6) and np.allclose(c.probe,b.probe,atol=1e-6)
                    c.reconstruct(num_iters=n-k)
                    e=np.abs(c.iter_losses-ref.iter_losses).max()/np.abs(ref.iter_losses).max(); eo=np.abs(c.obj-ref.obj).max(); lr=max(np.abs(c.iter_lrs[x]-ref.iter_lrs[x]).max() for x in ref.iter_lrs)
                    res.append((k,path,"ok" if (e<1e-5 and eo<1e-4 and lr<1e-9 and same_now) else f"DIFF loss {e:.1e} obj {eo:.1e} lr {lr:.1e} same_now {same_now}"))
                except Exception as ex:
                    res.append((k,path,"EXC "+type(ex).__name__+" "+str(ex)[:70]))
        bad=[r for r in res if r[2]!="ok"]
        print(okind,sname,ot,M,"all ok" if not bad else bad)
print("time",round(time.time()-t0,1))
