"""C06 — Dataset.bin / fourier_resample / pad / crop obey conservation laws.

Shape L (configuration lattices), level exploration. Four lattices, each enumerated completely and every
point executed on the real `quantem.core.datastructures.Dataset`:

  bin       shapes (1-D, 2-D: every axis length 1..7; 3-D / 4-D: axis lengths from {2..5}) x dtypes x EVERY axis subset
            x every factor tuple over {1,2,3,4} plus the tuples with exactly one factor = length+1 x {sum, mean}
            x {copy, in place}; and the other spellings of the same request (axes=None, scalar factor, int axis,
            negative axis indices, permuted axis order).
  resample  1-D every input length 1..8 x every output length 1..2n+1; 2-D every input shape x every output shape up
            to 6x6 (quick 4x4); axis subsets; selected 3-D; `out_shape` and `factors` forms; all dtypes; the complete
            delta basis of every shape (linearity closes the data quantifier); up-then-down on the delta basis
            projected off the Nyquist rows.
  pad/crop  every output_shape with 0..4 extra pixels per axis (and pad_width forms), then crop by the floor/ceil
            widths, on all axes at once and axis by axis.

  identity  call sequences (every sequence up to length 4, periodic streams of 12) in which consecutive calls see other content behind
            the same object identity: one Dataset refilled in place (directly / through a kept view), or dropped and rebuilt with
            the new array object at the recycled id() of the old one; shapes and dtypes alternating by position.

Oracles are independent of the implementation technique: block sums accumulated pixel by pixel in Python
floats (no reshape), block-centre coordinates averaged pixel by pixel, and a resampling matrix written from the
definition R[m,n] = (1/N) sum_{k in centred band} exp(2 pi i k m / M) exp(-2 pi i k n / N).
"""
from __future__ import annotations

import cmath
import itertools
import math
import warnings

import numpy as np

from mc.harness import Broken, Tally

LEVEL = "exploration"
TECHNIQUE = "full Cartesian lattices (shape x dtype x axis subset x factor tuple x reducer x mode; input x output shapes; pad widths) on the real Dataset, float64 pixel-loop block sums and a DFT-matrix resampler as oracles, complete delta basis; all ordered pairs/triples of colliding calls on a freshly re-imported module; all call sequences up to length 4 with other content behind the same object identity (in-place refill, rebuilt array at the recycled id)"
CLAIM = (
    "For every point of the stated lattices the real Dataset.bin equals pixel-by-pixel float64 block sums (or means), drops only "
    "the trailing remainder, multiplies sampling by the factor and keeps total counts and every block-centre coordinate; "
    "Dataset.fourier_resample equals an O(n^2) DFT-matrix resampler written from the definition on seeded data and on the complete "
    "delta basis (so, by linearity, on every array of those shapes), preserves mean, physical centre and field of view, is the identity at "
    "equal shape and returns Nyquist-free input after up- then down-sampling; pad(output_shape) followed by crop of the floor/ceil widths "
    "is the identity. Every ordered pair (thorough: triple) of calls from an alphabet built to collide on coarse keys (same shape and factor tuple / out_shape / widths "
    "on different axes, orders, spellings, reducers, dtypes, forms, in-place vs copy) runs on a freshly re-imported module and the last call still satisfies its oracles: "
    "a result does not depend on earlier calls. Every call sequence of length 2..4 (and periodic streams of 12) over bin / fourier_resample / pad+crop in which consecutive calls see OTHER content "
    "behind the SAME object identity - the one Dataset refilled in place (ds.array[...] = x, also through a view the caller keeps), or the Dataset and its array dropped and a fresh one built whose "
    "array object sits at the recycled id() of the dropped one, with shapes (8x6, 8x7, 8x6) and dtypes (float32, float64, complex64) alternating by position - gives at every call what that call gives on a "
    "fresh Dataset holding that content; the id() reuse is forced, counted, and its absence is a broken check, not a pass. Exploration is the right level: the property quantifies over configurations and inputs, not over histories."
)
NOTE = (
    "Trusted: the pixel-loop block-sum oracle, the DFT resampling matrix (band = frequencies -(L//2) .. L-L//2-1 common to input and output, "
    "real part for real input) and the floor/ceil pad-width convention in checks/C06.py. A factor larger than the axis length may give zero blocks "
    "or be rejected; both are accepted and counted. 3-D/4-D bin lattices use one dtype per shape (rotating through all six)."
)
RULE = (
    "Cartesian products as stated in coverage.alphabet/bounds, simplest first; one evaluation = one call of bin / fourier_resample / pad+crop "
    "on a fresh Dataset compared with the oracle. Non-trivial: the output shape differs from the input shape and is not empty (bin, resample), "
    "or at least one pixel was padded (pad/crop). Distinct outcomes = distinct (operation, output shape, origin, sampling, rounded checksum) records. "
    "Identity-reuse sequences: full product of the call alphabet to the stated depth per (transition, shape/dtype pattern), module re-imported before each; one evaluation = one call of a sequence; "
    "non-trivial = the call ran on other content behind an identity an earlier call of the sequence has seen (same object refilled, or new array at the id() of the dropped one), distinct by sequence prefix."
)

# ----------------------------------------------------------------------------- tolerances
# err is always divided by a scale: bin -> sum of |pixels| in the block; resample -> max |input|.
# Worst relative deviations observed on the unchanged tree, seeds {0,1,2,7,12345}, both tiers:
#   bin      int sum: exactly 0; float64/complex128/int mean: 2.3e-16; float32/complex64: 1.2e-7
#   resample float64/complex128/int: 2.0e-15 (oracle), 1.6e-15 (mean), 4.4e-16 (identity), 3.6e-15 (up-down), 2.7e-15 (superposition)
#            float32/complex64:      8.6e-7  (oracle), 4.8e-7 (mean), 2.4e-7 (identity), 1.1e-6 (up-down)
#   metadata (origin, sampling, block centres, centre, extent): 4.5e-16 relative
# Smallest mutant effects: one pixel moved between blocks of 256 -> 4e-3; origin shift 0.5*f vs 0.5*(f-1) -> 0.25 px;
# DC index off by one -> O(1); missing N_out/N_in on a subset -> >= 1/7; pad floor/floor -> shape differs (exact).
TOL64 = 1e-10
TOL32 = 2e-5
TOL_META = 1e-12

DTYPES = ["int16", "int64", "float32", "float64", "complex64", "complex128"]
REDUCERS = ["sum", "mean"]
MODES = ["copy", "inplace"]


STATS = bool(__import__("os").environ.get("VERIF_C06_STATS"))  # development aid: decade histogram of the deviations in the evidence counters


def stat(t, name, dtype, info_or_dev):
    if not STATS:
        return
    devs = info_or_dev.items() if isinstance(info_or_dev, dict) else [(name, info_or_dev)]
    grp = "f32" if np.dtype(dtype).name in ("float32", "complex64") else "f64"
    for k, v in devs:
        if isinstance(k, str) and k.startswith("dev") and isinstance(v, float):
            e = -99 if v == 0 else (99 if not math.isfinite(v) else int(math.floor(math.log10(v))))
            t.extra[f"stat_{name}_{k}_{grp}_e{e}"] += 1


def tol_for(dtype):
    return TOL32 if np.dtype(dtype).name in ("float32", "complex64") else TOL64


# ----------------------------------------------------------------------------- data and datasets
def make_array(shape, dtype, seed, tag=0):
    rng = np.random.default_rng([seed, 6, tag, len(shape)] + [int(s) for s in shape] + [DTYPES.index(dtype)])
    if dtype == "int16":
        return rng.integers(-32768, 32767, size=shape, endpoint=True).astype(np.int16)
    if dtype == "int64":
        return rng.integers(-(10**9), 10**9, size=shape, endpoint=True).astype(np.int64)
    if dtype in ("float32", "float64"):
        return (rng.standard_normal(shape) * 10.0).astype(dtype)
    re, im = rng.standard_normal(shape) * 10.0, rng.standard_normal(shape) * 10.0
    return (re + 1j * im).astype(dtype)


def meta(nd):
    origin = [1.0 + 0.5 * k - 3.0 * (k % 2) for k in range(nd)]
    sampling = [0.5 + 0.25 * k for k in range(nd)]
    units = [f"u{k}" for k in range(nd)]
    return origin, sampling, units


_DATASET_CLS = None  # set by the call-history part to the Dataset class of the freshly re-imported module


_LAYOUT = None  # memory layout of the array handed to Dataset.from_array (None = plain C-contiguous copy)
_LAST_SOURCE = None  # (source array, flags/strides snapshot) of the most recent dataset() call, for the "source untouched" check
LAYOUTS = ["C", "F", "T", "permuted", "strided", "negative_strides", "readonly", "broadcast"]


def layout_array(a, layout):
    """An array with the LOGICAL contents of `a` in the requested memory layout."""
    if layout == "C":
        return a.copy()
    if layout == "F":
        return np.asfortranarray(a.copy())
    if layout == "T":  # full transpose view of a C-contiguous array
        return np.ascontiguousarray(a.T).T
    if layout == "permuted":  # first axis stored last: neither C- nor F-contiguous for >= 3-D
        return np.moveaxis(np.ascontiguousarray(np.moveaxis(a, 0, -1)), -1, 0)
    if layout == "strided":  # every second element of a larger buffer, offset 1
        big = np.zeros(tuple(2 * n + 1 for n in a.shape), dtype=a.dtype)
        view = big[tuple(slice(1, None, 2) for _ in a.shape)]
        view[...] = a
        return view
    if layout == "negative_strides":
        rev = tuple(slice(None, None, -1) for _ in a.shape)
        return a[rev].copy()[rev]
    if layout == "readonly":
        x = a.copy()
        x.flags.writeable = False
        return x
    if layout == "broadcast":  # zero stride along axis 0, read-only; the logical array must be constant along axis 0
        return np.broadcast_to(a[:1].copy(), a.shape)
    raise ValueError(layout)


def logical_for(a, layout):
    """The logical contents a layout can hold: everything, except that a broadcast view is constant along axis 0."""
    if layout == "broadcast":
        return np.ascontiguousarray(np.broadcast_to(a[:1], a.shape))
    return a


def source_problem(a):
    """The array that was handed to Dataset.from_array must keep its bytes, flags and strides."""
    if _LAST_SOURCE is None:
        return None
    x, snap = _LAST_SOURCE
    now = (x.flags.writeable, x.flags.c_contiguous, x.flags.f_contiguous, x.strides, x.shape, x.dtype)
    if now != snap:
        return f"flags/strides/shape of the source array changed from {snap} to {now}"
    if not np.array_equal(x, a, equal_nan=True):
        return "the contents of the source array changed"
    return None


_DATASET_OBJ = None  # one-shot: the next dataset() call returns this existing object (copies family: laws on a snapshot)


def dataset(a):
    global _LAST_SOURCE, _DATASET_OBJ
    if _DATASET_OBJ is not None:
        d, _DATASET_OBJ = _DATASET_OBJ, None
        _LAST_SOURCE = None
        return d
    if _DATASET_CLS is not None:
        Dataset = _DATASET_CLS
    else:
        from quantem.core.datastructures import Dataset

    origin, sampling, units = meta(a.ndim)
    x = a.copy() if _LAYOUT is None else layout_array(a, _LAYOUT)
    _LAST_SOURCE = (x, (x.flags.writeable, x.flags.c_contiguous, x.flags.f_contiguous, x.strides, x.shape, x.dtype))
    return Dataset.from_array(x, origin=list(origin), sampling=list(sampling), units=list(units))


def wide(a):
    return a.astype(np.complex128) if np.iscomplexobj(a) else a.astype(np.float64)


def close_meta(x, y, ref=1.0):
    return abs(float(x) - float(y)) <= TOL_META * max(1.0, abs(float(y)), abs(ref))


# ============================================================================= BIN
def factor_tuples(shape, axes):
    """Every tuple over {1,2,3,4} plus every tuple with exactly one factor = axis length + 1 (larger than the axis)."""
    seen, out = set(), []
    k = len(axes)
    for f in itertools.product([1, 2, 3, 4], repeat=k):
        if f not in seen:
            seen.add(f)
            out.append(f)
    for pos in range(k):
        for rest in itertools.product([1, 2, 3, 4], repeat=k - 1):
            f = list(rest)
            f.insert(pos, shape[axes[pos]] + 1)
            f = tuple(f)
            if f not in seen:
                seen.add(f)
                out.append(f)
    return out


def axis_subsets(nd):
    for r in range(1, nd + 1):
        for c in itertools.combinations(range(nd), r):
            yield c


def block_oracle(flat, shape, fvec):
    """Pixel-by-pixel block sums. flat: Python list (floats or complex) in C order. Returns (sums, abs_sums, nblocks)."""
    nd = len(shape)
    nblocks = tuple(n // f for n, f in zip(shape, fvec))
    total = 1
    for n in nblocks:
        total *= n
    sums = [0.0] * total
    asum = [0.0] * total
    if total == 0:
        return sums, asum, nblocks
    istr = [1] * nd
    ostr = [1] * nd
    for k in range(nd - 2, -1, -1):
        istr[k] = istr[k + 1] * shape[k + 1]
        ostr[k] = ostr[k + 1] * nblocks[k + 1]
    covered = [nb * f for nb, f in zip(nblocks, fvec)]  # the trailing remainder is the only thing dropped
    for idx in itertools.product(*[range(c) for c in covered]):
        i = 0
        j = 0
        for k in range(nd):
            i += idx[k] * istr[k]
            j += (idx[k] // fvec[k]) * ostr[k]
        v = flat[i]
        sums[j] += v
        asum[j] += abs(v)
    return sums, asum, nblocks


def bin_call_args(spelling, nd, axes, fac):
    """(bin_factors, axes) as passed to the library for one spelling of the same request."""
    if spelling == "tuple":
        return tuple(fac), tuple(axes)
    if spelling == "none":
        return tuple(fac), None
    if spelling == "scalar":
        return int(fac[0]), tuple(axes)
    if spelling == "scalar_none":
        return int(fac[0]), None
    if spelling == "int_axis":
        return int(fac[0]), int(axes[0])
    if spelling == "negative":
        return tuple(fac), tuple(a - nd for a in axes)
    if spelling == "permuted":
        return tuple(reversed(fac)), tuple(reversed(axes))
    if spelling == "list":
        return list(fac), list(axes)
    raise ValueError(spelling)


def bin_spellings(nd, axes, fac):
    sp = []
    if len(axes) == nd:
        sp.append("none")
    if len(set(fac)) == 1:
        sp.append("scalar")
        if len(axes) == nd:
            sp.append("scalar_none")
    if len(axes) == 1:
        sp.append("int_axis")
    sp.append("negative")
    if len(axes) >= 2:
        sp.append("permuted")
    sp.append("list")
    return sp


def check_bin(a, flat, cache, axes, fac, reducer, mode, spelling):
    """One bin call judged against the oracle. Returns (status, problems, info)."""
    nd = a.ndim
    shape = a.shape
    origin, sampling, _ = meta(nd)
    fvec = [1] * nd
    for ax, f in zip(axes, fac):
        fvec[ax] = f
    fvec = tuple(fvec)
    oversize = any(f > shape[ax] for ax, f in zip(axes, fac))
    d = dataset(a)
    bf, axarg = bin_call_args(spelling, nd, axes, fac)
    probs = []
    info = {"call": f"bin({bf!r}, axes={axarg!r}, reducer={reducer!r}, modify_in_place={mode == 'inplace'})"}
    try:
        with warnings.catch_warnings():
            warnings.simplefilter("ignore")
            with np.errstate(all="ignore"):
                r = d.bin(bf, axes=axarg, reducer=reducer, modify_in_place=(mode == "inplace"))
    except Exception as e:
        info["raised"] = f"{type(e).__name__}: {e}"
        if oversize:
            return "rejected", probs, info  # a factor larger than the axis: rejection is an acceptable answer
        probs.append(("raises", f"raised {type(e).__name__}: {e}"))
        return "raised", probs, info
    o = d if mode == "inplace" else r
    if o is None or not hasattr(o, "array"):
        probs.append(("returns_dataset", f"returned {type(r).__name__}"))
        return "bad", probs, info
    if fvec not in cache:
        cache[fvec] = block_oracle(flat, shape, fvec)
    sums, asum, nblocks = cache[fvec]
    res = np.asarray(o.array)
    info.update(out_shape=tuple(res.shape), origin=[float(x) for x in o.origin], sampling=[float(x) for x in o.sampling])
    info["expected_shape"] = nblocks
    # --- drops only the trailing remainder: number of blocks = length // factor
    if tuple(res.shape) != nblocks:
        probs.append(("shape_drops_only_remainder", f"output shape {tuple(res.shape)}, expected {nblocks} (= length // factor per axis)"))
    else:
        vol = 1
        for f in fac:
            vol *= f
        rw = wide(res).ravel().tolist()
        tol = tol_for(a.dtype)
        exact_int = a.dtype.kind == "i" and reducer == "sum"
        worst, wj = 0.0, -1
        tot_res, tot_ref, tot_abs = 0.0, 0.0, 0.0
        for j in range(len(sums)):
            ref = sums[j] / vol if reducer == "mean" else sums[j]
            err = abs(rw[j] - ref)
            sc = (asum[j] / vol if reducer == "mean" else asum[j])
            rel = 0.0 if err == 0 else (err / sc if sc > 0 else float("inf"))
            if exact_int and err != 0:
                rel = float("inf")
            if rel > worst:
                worst, wj = rel, j
            tot_res += rw[j] * (vol if reducer == "mean" else 1)
            tot_ref += sums[j]
            tot_abs += asum[j]
        info["dev_values"] = worst
        if worst > tol:
            jj = np.unravel_index(wj, nblocks)
            ref = sums[wj] / vol if reducer == "mean" else sums[wj]
            probs.append(("block_values", f"block {tuple(int(x) for x in jj)}: got {rw[wj]!r}, pixel-loop {reducer} gives {ref!r}"))
        # --- counts over the covered region are preserved
        cdev = abs(tot_res - tot_ref) / tot_abs if tot_abs > 0 else 0.0
        info["dev_counts"] = cdev
        if cdev > tol:
            probs.append(("counts_preserved", f"total over the output (x block volume for mean) {tot_res!r} != total over the covered input region {tot_ref!r}"))
    # --- metadata: sampling multiplied, every block centre keeps its physical coordinate
    no, ns = [float(x) for x in o.origin], [float(x) for x in o.sampling]
    mdev = 0.0
    for ax in range(nd):
        f = fvec[ax]
        extent = abs(origin[ax]) + shape[ax] * sampling[ax]
        if not close_meta(ns[ax], sampling[ax] * f):
            probs.append(("sampling_times_factor", f"axis {ax}: sampling {ns[ax]!r}, expected {sampling[ax]}*{f} = {sampling[ax] * f!r}"))
            break
        nb = shape[ax] // f
        if nb == 0:
            continue  # no block on this axis: there is no first block whose centre could be demanded
        for j in range(nb):
            centre_old = sum(origin[ax] + i * sampling[ax] for i in range(j * f, (j + 1) * f)) / f
            centre_new = no[ax] + j * ns[ax]
            mdev = max(mdev, abs(centre_new - centre_old) / extent)
            if not close_meta(centre_new, centre_old, extent):
                probs.append(("block_centre_preserved", f"axis {ax} block {j}: centre at {centre_new!r}, mean coordinate of its pixels is {centre_old!r} (origin {no[ax]!r}, sampling {ns[ax]!r})"))
                break
        else:
            continue
        break
    info["dev_meta"] = mdev
    # --- the copying form leaves the source alone
    if mode == "copy":
        if not (np.array_equal(d.array, a) and d.array.dtype == a.dtype and all(close_meta(x, y) for x, y in zip(d.origin, origin)) and all(close_meta(x, y) for x, y in zip(d.sampling, sampling))):
            probs.append(("copy_leaves_source", "the source dataset changed although modify_in_place=False"))
    status = "empty" if 0 in nblocks else "ok"
    return status, probs, info


SELECTED_4D = [(2, 3, 4, 5), (5, 4, 3, 2), (3, 3, 2, 4), (4, 2, 5, 3), (2, 2, 2, 2), (5, 5, 3, 4)]


def bin_item(item, seed=0):
    """All bin configurations for one (shape, dtype)."""
    shape, dtype = tuple(item[0]), item[1]
    spell = len(shape) < 4 or shape in SELECTED_4D  # the spelling sub-lattice runs on every 1-D..3-D shape and on the selected 4-D shapes
    a = make_array(shape, dtype, seed, tag=1)
    flat = wide(a).ravel().tolist()
    nd = len(shape)
    cache = {}
    t = Tally()
    with FreshModule() as fm:
        fm.fresh()  # every item starts from a freshly imported module: what a point sees does not depend on worker scheduling
        _bin_lattice(fm, t, a, flat, cache, shape, dtype, nd, spell, seed)
    if (shape, dtype) in (((7,), "float64"), ((5, 7), "int64")):  # present in both tiers: the written-out samples are the same every run
        st, pr, info = check_bin(a, flat, cache, tuple(range(nd)), (2,) * nd, "sum", "copy", "tuple")
        t.sample({"op": "bin", "shape": list(shape), "dtype": dtype, "call": info["call"], "out_shape": info.get("out_shape"), "origin": info.get("origin"), "sampling": info.get("sampling")}, cap=1)
    return t


def _bin_lattice(fm, t, a, flat, cache, shape, dtype, nd, spell, seed):
    earlier, memo = [], {}
    for axes in axis_subsets(nd):
        for fac in factor_tuples(shape, axes):
            combos = [("tuple", r, m) for r in REDUCERS for m in MODES]
            if spell:
                combos += [(s, "sum", "copy") for s in bin_spellings(nd, axes, fac)]
            for spelling, reducer, mode in combos:
                status, probs, info = check_bin(a, flat, cache, axes, fac, reducer, mode, spelling)
                case = {"op": "bin", "shape": list(shape), "dtype": dtype, "axes": list(axes), "factors": list(fac), "reducer": reducer, "mode": mode, "spelling": spelling}
                stat(t, "bin", dtype, info)
                if probs:
                    probs.sort(key=lambda p: BIN_ORDER.index(p[0]))
                    more = f" [also: {', '.join(r for r, _ in probs[1:])}]" if len(probs) > 1 else ""
                    lattice_failure(fm, t, seed, dict(case, tag=1), earlier, probs, {"op": "bin", "relation": probs[0][0], "spelling": spelling},
                                    f"{dtype}{shape}.{info['call']}: {probs[0][1]}{more}", memo)
                earlier.append(dict(case, tag=1))
                out_shape = info.get("out_shape")
                nontrivial = status == "ok" and out_shape is not None and tuple(out_shape) != shape
                t.case(
                    key=("bin", shape, dtype, axes, fac, reducer, mode, spelling) if nontrivial else None,
                    nontrivial=nontrivial,
                    outcome=("bin", status, out_shape, info.get("origin"), info.get("sampling")),
                )
                t.extra["bin_" + status] += 1
                if any(f > 1 and shape[ax] % f for ax, f in zip(axes, fac)):
                    t.extra["bin_points_with_dropped_remainder"] += 1


BIN_ORDER = ["raises", "returns_dataset", "shape_drops_only_remainder", "block_values", "counts_preserved", "sampling_times_factor", "block_centre_preserved", "copy_leaves_source"]


# ============================================================================= FOURIER RESAMPLE
_RMAT = {}


def resample_matrix(N, M):
    """R[m, n] = (1/N) sum_{k in band} exp(2 pi i k m / M) exp(-2 pi i k n / N): keep the centred band, rescale by M/N.

    The DFT of length L has the signed frequencies -(L//2) .. L-L//2-1 (that is how fftshift orders them, the Nyquist
    term of an even length sits at -L/2). The band is what input and output have in common."""
    key = (N, M)
    if key not in _RMAT:
        fin = set(range(-(N // 2), N - N // 2))
        band = [k for k in range(-(M // 2), M - M // 2) if k in fin]
        R = np.zeros((M, N), dtype=np.complex128)
        for m in range(M):
            for n in range(N):
                s = 0j
                for k in band:
                    s += cmath.exp(2j * math.pi * k * m / M) * cmath.exp(-2j * math.pi * k * n / N)
                R[m, n] = s / N
        _RMAT[key] = R
    return _RMAT[key]


def resample_oracle(a, axes, outlens):
    y = a.astype(np.complex128)
    for ax, M in zip(axes, outlens):
        R = resample_matrix(a.shape[ax], M)
        y = np.moveaxis(np.tensordot(R, y, axes=([1], [ax])), 0, ax)
    return y if np.iscomplexobj(a) else y.real


def fr_call_args(spelling, form, nd, axes, outlens, shape):
    if spelling == "none":
        axarg = None
    elif spelling == "tuple":
        axarg = tuple(axes)
    elif spelling == "int_axis":
        axarg = int(axes[0])
    elif spelling == "negative":
        axarg = tuple(ax - nd for ax in axes)
    elif spelling == "permuted":
        axarg = tuple(reversed(axes))
        outlens = tuple(reversed(outlens))
        axes = tuple(reversed(axes))
    else:
        raise ValueError(spelling)
    if form == "out_shape":
        return {"out_shape": tuple(int(m) for m in outlens), "axes": axarg}
    if form == "factors":
        return {"factors": tuple(m / shape[ax] for ax, m in zip(axes, outlens)), "axes": axarg}
    raise ValueError(form)


def check_resample(a, axes, outlens, form, spelling, mode, ref=None):
    """One fourier_resample call judged against the DFT-matrix oracle and the conservation laws."""
    nd = a.ndim
    shape = a.shape
    origin, sampling, _ = meta(nd)
    exp_shape = list(shape)
    for ax, M in zip(axes, outlens):
        exp_shape[ax] = M
    exp_shape = tuple(exp_shape)
    kw = fr_call_args(spelling, form, nd, axes, outlens, shape)
    d = dataset(a)
    probs = []
    info = {"call": "fourier_resample(" + ", ".join(f"{k}={v!r}" for k, v in kw.items()) + f", modify_in_place={mode == 'inplace'})", "expected_shape": exp_shape}
    try:
        with warnings.catch_warnings():
            warnings.simplefilter("ignore")
            with np.errstate(all="ignore"):
                r = d.fourier_resample(modify_in_place=(mode == "inplace"), **kw)
    except Exception as e:
        info["raised"] = f"{type(e).__name__}: {e}"
        probs.append(("raises", f"raised {type(e).__name__}: {e}"))
        return "raised", probs, info
    o = d if mode == "inplace" else r
    if o is None or not hasattr(o, "array"):
        probs.append(("returns_dataset", f"returned {type(r).__name__}"))
        return "bad", probs, info
    res = np.asarray(o.array)
    no, ns = [float(x) for x in o.origin], [float(x) for x in o.sampling]
    info.update(out_shape=tuple(res.shape), origin=no, sampling=ns)
    tol = tol_for(a.dtype)
    scale = float(np.max(np.abs(a))) if a.size else 1.0
    scale = scale if scale > 0 else 1.0
    if tuple(res.shape) != exp_shape:
        probs.append(("output_shape", f"output shape {tuple(res.shape)}, expected {exp_shape}"))
    else:
        if ref is None:
            ref = resample_oracle(a, axes, outlens)
        if np.iscomplexobj(res) != np.iscomplexobj(a):
            probs.append(("real_stays_real", f"input dtype {a.dtype}, output dtype {res.dtype}"))
        dv = float(np.max(np.abs(res - ref))) / scale if res.size else 0.0
        info["dev_oracle"] = dv
        if not dv <= tol:
            k = np.unravel_index(int(np.argmax(np.abs(res - ref))), res.shape)
            probs.append(("dft_oracle", f"at {tuple(int(x) for x in k)}: got {res[k]!r}, the DFT-matrix resampler gives {ref[k]!r} (deviation {dv:.3g} of max|input|)"))
        # --- the array mean is preserved
        dm = abs(complex(np.mean(wide(res))) - complex(np.mean(wide(a)))) / scale
        info["dev_mean"] = dm
        if not dm <= tol:
            probs.append(("mean_preserved", f"mean {np.mean(wide(res))!r} after, {np.mean(wide(a))!r} before"))
        # --- identity when the shape is unchanged
        if exp_shape == shape:
            di = float(np.max(np.abs(wide(res) - wide(a)))) / scale
            info["dev_identity"] = di
            if not di <= tol:
                probs.append(("identity_at_equal_shape", f"same shape requested but the data changed by {di:.3g} of max|input|"))
    # --- physical centre and field of view are preserved; untouched axes keep their calibration
    mdev = 0.0
    oshape = tuple(res.shape)
    if len(oshape) == nd:
        for ax in range(nd):
            extent = shape[ax] * sampling[ax]
            c_old = origin[ax] + (shape[ax] - 1) / 2.0 * sampling[ax]
            c_new = no[ax] + (oshape[ax] - 1) / 2.0 * ns[ax]
            e_new = oshape[ax] * ns[ax]
            mdev = max(mdev, abs(c_new - c_old) / (abs(origin[ax]) + extent), abs(e_new - extent) / extent)
            if not close_meta(c_new, c_old, abs(origin[ax]) + extent):
                probs.append(("centre_preserved", f"axis {ax}: physical centre {c_new!r} after, {c_old!r} before"))
                break
            if not close_meta(e_new, extent, extent):
                probs.append(("extent_preserved", f"axis {ax}: field of view {e_new!r} after, {extent!r} before"))
                break
    info["dev_meta"] = mdev
    if mode == "copy":
        if not (np.array_equal(d.array, a) and all(close_meta(x, y) for x, y in zip(d.origin, origin)) and all(close_meta(x, y) for x, y in zip(d.sampling, sampling))):
            probs.append(("copy_leaves_source", "the source dataset changed although modify_in_place=False"))
    return "ok", probs, info


FR_ORDER = ["raises", "returns_dataset", "output_shape", "real_stays_real", "dft_oracle", "mean_preserved", "identity_at_equal_shape",
            "centre_preserved", "extent_preserved", "copy_leaves_source", "scalar_factor_length", "delta_basis", "superposition", "up_then_down"]


def record_fr(t, part, a, dtype, axes, outlens, form, spelling, mode, status, probs, info, extra_case=None, hist=None):
    shape = a.shape
    case = {"op": "resample", "part": part, "shape": list(shape), "dtype": dtype, "axes": list(axes), "out": list(outlens), "form": form, "spelling": spelling, "mode": mode}
    if extra_case:
        case.update(extra_case)
    if probs:
        probs.sort(key=lambda p: FR_ORDER.index(p[0]))
        more = f" [also: {', '.join(r for r, _ in probs[1:])}]" if len(probs) > 1 else ""
        cls_point, msg_point = {"op": "resample", "relation": probs[0][0], "spelling": spelling, "form": form}, f"{dtype}{shape}.{info['call']}: {probs[0][1]}{more}"
        if hist is None:
            t.fail(cls_point, case, msg_point)
        else:
            fm, seed, earlier, memo = hist
            lattice_failure(fm, t, seed, dict(case, tag=2), earlier, probs, cls_point, msg_point, memo)
    if hist is not None:
        hist[2].append(dict(case, tag=2))
    stat(t, "fr", dtype, info)
    out_shape = info.get("out_shape")
    nontrivial = status == "ok" and out_shape is not None and tuple(out_shape) != shape
    t.case(
        key=("fr", part, shape, dtype, axes, outlens, form, spelling, mode, extra_case) if nontrivial else None,
        nontrivial=nontrivial,
        outcome=("fr", status, out_shape, [round(x, 9) for x in info.get("origin", [])], [round(x, 9) for x in info.get("sampling", [])]),
    )
    t.extra["resample_" + status] += 1
    if status == "ok" and out_shape is not None:
        up = any(o > s for o, s in zip(out_shape, shape))
        down = any(o < s for o, s in zip(out_shape, shape))
        t.extra["resample_up" if up and not down else "resample_down" if down and not up else "resample_mixed" if up and down else "resample_same"] += 1


def fr_spellings(nd, axes):
    sp = ["tuple"]
    if len(axes) == nd:
        sp.append("none")
    if len(axes) == 1:
        sp.append("int_axis")
    sp.append("negative")
    if len(axes) >= 2:
        sp.append("permuted")
    return sp


def fr_item(item, seed=0):
    """Seeded data: every output shape of the item's list, forms, spellings, modes."""
    part, shape, dtype, axes, outs = item
    shape, axes = tuple(shape), tuple(axes)
    a = make_array(shape, dtype, seed, tag=2)
    nd = len(shape)
    t = Tally()
    with FreshModule() as fm:
        fm.fresh()
        hist = (fm, seed, [], {})
        for outlens in outs:
            outlens = tuple(outlens)
            ref = resample_oracle(a, axes, outlens)
            for form in ("out_shape", "factors"):
                for spelling in fr_spellings(nd, axes):
                    for mode in MODES:
                        if form == "factors" and mode == "inplace":
                            continue  # the form only decides the output length; in-place is covered with out_shape
                        status, probs, info = check_resample(a, axes, outlens, form, spelling, mode, ref=ref)
                        record_fr(t, part, a, dtype, axes, outlens, form, spelling, mode, status, probs, info, hist=hist)
    if part == "2d" and shape == (3, 4) and dtype == "float64":
        st, pr, info = check_resample(a, axes, (6, 3), "out_shape", "tuple", "copy")
        t.sample({"op": "resample", "shape": list(shape), "call": info["call"], "out_shape": info.get("out_shape"), "origin": info.get("origin"), "sampling": info.get("sampling"), "deviation_from_dft_matrix": info.get("dev_oracle")}, cap=1)
    return t


SCALAR_FACTORS = [0.5, 1.0, 1.5, 2.0, 1.0 / 3.0, 2.5]


def scalar_factor_item(item, seed=0):
    """factors=<one float> applies to every selected axis; the output length must be the nearest integer (>= 1)."""
    with FreshModule():  # start from fresh module-level state (original classes kept)
        pass
    shape, dtype = tuple(item[0]), item[1]
    a = make_array(shape, dtype, seed, tag=3)
    nd = len(shape)
    t = Tally()
    from quantem.core.datastructures import Dataset  # noqa: F401

    for f in SCALAR_FACTORS:
        for axes in [None] + list(axis_subsets(nd)):
            d = dataset(a)
            sel = tuple(range(nd)) if axes is None else axes
            case = {"op": "resample", "part": "scalar_factor", "shape": list(shape), "dtype": dtype, "axes": list(sel), "axes_none": axes is None, "factor": f}
            call = f"fourier_resample(factors={f!r}, axes={axes!r})"
            try:
                with warnings.catch_warnings():
                    warnings.simplefilter("ignore")
                    o = d.fourier_resample(factors=f, axes=axes)
            except Exception as e:
                t.fail({"op": "resample", "relation": "raises", "spelling": "tuple", "form": "scalar_factor"}, case, f"{dtype}{shape}.{call}: raised {type(e).__name__}: {e}")
                t.case(key=None, nontrivial=False, outcome=("fr_scalar", "raised"))
                continue
            got = tuple(o.array.shape)
            ok = len(got) == nd
            if ok:
                for ax in range(nd):
                    if ax in sel:
                        want = shape[ax] * f
                        if got[ax] < 1 or (abs(got[ax] - want) > 0.5 + 1e-9 and not (want < 0.5 and got[ax] == 1)):
                            ok = False
                    elif got[ax] != shape[ax]:
                        ok = False
            if not ok:
                t.fail({"op": "resample", "relation": "scalar_factor_length", "spelling": "tuple", "form": "scalar_factor"}, case, f"{dtype}{shape}.{call}: output shape {got} is not the nearest integer to length*factor on the selected axes")
                t.case(key=None, nontrivial=False, outcome=("fr_scalar", "badshape", got))
                continue
            outlens = tuple(got[ax] for ax in sel)
            # the laws for the shape that came out, through the out_shape oracle
            ref = resample_oracle(a, sel, outlens)
            tol = tol_for(a.dtype)
            scale = float(np.max(np.abs(a))) or 1.0
            dv = float(np.max(np.abs(np.asarray(o.array) - ref))) / scale
            origin, sampling, _ = meta(nd)
            bad = None
            if not dv <= tol:
                bad = ("dft_oracle", f"deviation {dv:.3g} of max|input| from the DFT-matrix resampler")
            for ax in range(nd):
                c_old = origin[ax] + (shape[ax] - 1) / 2.0 * sampling[ax]
                c_new = float(o.origin[ax]) + (got[ax] - 1) / 2.0 * float(o.sampling[ax])
                ext = shape[ax] * sampling[ax]
                if not close_meta(c_new, c_old, abs(origin[ax]) + ext):
                    bad = bad or ("centre_preserved", f"axis {ax}: centre {c_new!r} vs {c_old!r}")
                if not close_meta(got[ax] * float(o.sampling[ax]), ext, ext):
                    bad = bad or ("extent_preserved", f"axis {ax}: extent {got[ax] * float(o.sampling[ax])!r} vs {ext!r}")
            if bad:
                t.fail({"op": "resample", "relation": bad[0], "spelling": "tuple", "form": "scalar_factor"}, case, f"{dtype}{shape}.{call}: {bad[1]}")
            nontrivial = got != shape
            t.case(key=("fr_scalar", shape, dtype, sel, axes is None, f) if nontrivial else None, nontrivial=nontrivial, outcome=("fr_scalar", got, [round(float(x), 9) for x in o.sampling]))
            t.extra["resample_scalar_factor_points"] += 1
    return t


def delta_item(item, seed=0):
    """The complete delta basis of one input shape against the oracle's columns, and superposition, for every output shape."""
    with FreshModule():  # start from fresh module-level state (original classes kept)
        pass
    shape, dtype, axes, outs = item
    shape, axes = tuple(shape), tuple(axes)
    nd = len(shape)
    x = make_array(shape, dtype, seed, tag=4)
    cplx = np.iscomplexobj(x)
    coef = (1.0 + 2.0j) if cplx else 1.0
    tol = tol_for(dtype)
    t = Tally()
    for outlens in outs:
        outlens = tuple(outlens)
        exp_shape = list(shape)
        for ax, M in zip(axes, outlens):
            exp_shape[ax] = M
        exp_shape = tuple(exp_shape)
        acc = np.zeros(exp_shape, dtype=np.complex128)
        worst = 0.0
        worst_s = 0.0
        bad = None
        for j in np.ndindex(*shape):
            e = np.zeros(shape, dtype=dtype)
            e[j] = coef
            try:
                with warnings.catch_warnings():
                    warnings.simplefilter("ignore")
                    r = np.asarray(dataset(e).fourier_resample(out_shape=outlens, axes=axes).array)
            except Exception as ex:
                bad = bad or ("raises", f"delta at {j}: raised {type(ex).__name__}: {ex}")
                break
            if tuple(r.shape) != exp_shape:
                bad = bad or ("output_shape", f"delta at {j}: output shape {tuple(r.shape)}, expected {exp_shape}")
                break
            ref = resample_oracle(e, axes, outlens)
            dv = float(np.max(np.abs(r - ref))) / abs(coef) if r.size else 0.0
            worst = max(worst, dv)
            if not dv <= tol:
                bad = bad or ("delta_basis", f"response to {coef!r} x delta at {tuple(int(i) for i in j)} deviates by {dv:.3g} from the matching column of the DFT-matrix resampler")
            acc += (x[j] / coef) * r if cplx else float(x[j]) * r
            t.extra["resample_delta_calls"] += 1
        case = {"op": "resample", "part": "delta", "shape": list(shape), "dtype": dtype, "axes": list(axes), "out": list(outlens)}
        if bad is None:
            with warnings.catch_warnings():
                warnings.simplefilter("ignore")
                full = np.asarray(dataset(x).fourier_resample(out_shape=outlens, axes=axes).array)
            scale = float(np.max(np.abs(x))) * max(1, x.size) ** 0.5 or 1.0
            ds = float(np.max(np.abs(full - (acc if cplx else acc.real)))) / scale if full.size else 0.0
            worst_s = ds
            if not ds <= tol:
                bad = ("superposition", f"resample(x) differs from sum_j x_j resample(delta_j) by {ds:.3g} (relative)")
        if bad:
            t.fail({"op": "resample", "relation": bad[0], "spelling": "tuple", "form": "out_shape"}, case, f"{dtype}{shape}.fourier_resample(out_shape={outlens}, axes={axes}): {bad[1]}")
        stat(t, "delta", dtype, {"dev_delta": float(worst), "dev_super": float(worst_s) if bad is None else 0.0})
        nontrivial = exp_shape != shape
        t.case(key=("delta", shape, dtype, axes, outlens) if nontrivial else None, nontrivial=nontrivial, outcome=("delta", exp_shape, round(worst, 7)))
        t.extra["resample_delta_bases"] += 1
    return t


def nyquist_free(x):
    """Remove the Nyquist row of every even-length axis: x - (-1)^n * mean_n((-1)^n x)."""
    y = x.astype(np.complex128) if np.iscomplexobj(x) else x.astype(np.float64)
    for ax, n in enumerate(y.shape):
        if n % 2 == 0:
            sign = np.array([(-1.0) ** i for i in range(n)])
            shp = [1] * y.ndim
            shp[ax] = n
            s = sign.reshape(shp)
            y = y - s * np.mean(s * y, axis=ax, keepdims=True)
    return y


def updown_item(item, seed=0):
    """Up-sample to every shape in `ups`, down-sample back: Nyquist-free input must come back, calibration included."""
    with FreshModule():  # start from fresh module-level state (original classes kept)
        pass
    shape, dtype, ups = item
    shape = tuple(shape)
    nd = len(shape)
    origin, sampling, _ = meta(nd)
    tol = tol_for(dtype)
    cplx = dtype.startswith("complex")
    alphabet = []
    for j in np.ndindex(*shape):
        e = np.zeros(shape, dtype=np.complex128 if cplx else np.float64)
        e[j] = (1.0 + 2.0j) if cplx else 1.0
        alphabet.append(("delta" + str(tuple(int(i) for i in j)), nyquist_free(e).astype(dtype)))
    seeded = make_array(shape, dtype if not dtype.startswith("int") else "float64", seed, tag=5)
    alphabet.append(("seeded", nyquist_free(seeded).astype(dtype)))
    t = Tally()
    for up in ups:
        up = tuple(up)
        worst, bad = 0.0, None
        for name, x in alphabet:
            d = dataset(x)
            try:
                with warnings.catch_warnings():
                    warnings.simplefilter("ignore")
                    u = d.fourier_resample(out_shape=up)
                    o = u.fourier_resample(out_shape=shape)
            except Exception as ex:
                bad = bad or ("raises", f"{name}: raised {type(ex).__name__}: {ex}")
                break
            r = np.asarray(o.array)
            if tuple(r.shape) != shape:
                bad = bad or ("output_shape", f"{name}: came back with shape {tuple(r.shape)}")
                break
            scale = float(np.max(np.abs(x))) or 1.0
            dv = float(np.max(np.abs(wide(r) - wide(x)))) / scale
            worst = max(worst, dv)
            if not dv <= tol:
                bad = bad or ("up_then_down", f"{name} (Nyquist rows removed): {shape} -> {up} -> {shape} changed the data by {dv:.3g} of max|input|")
            if not (all(close_meta(p, q) for p, q in zip(o.origin, origin)) and all(close_meta(p, q) for p, q in zip(o.sampling, sampling))):
                bad = bad or ("up_then_down", f"{name}: calibration after the round trip origin={list(map(float, o.origin))} sampling={list(map(float, o.sampling))}, before {origin} {sampling}")
            t.extra["resample_updown_calls"] += 1
        case = {"op": "resample", "part": "updown", "shape": list(shape), "dtype": dtype, "up": list(up)}
        if bad:
            t.fail({"op": "resample", "relation": bad[0], "spelling": "none", "form": "out_shape"}, case, f"{dtype}{shape} up to {up} and back: {bad[1]}")
        stat(t, "updown", dtype, {"dev_updown": float(worst)})
        nontrivial = up != shape
        t.case(key=("updown", shape, dtype, up) if nontrivial else None, nontrivial=nontrivial, outcome=("updown", shape, up, round(worst, 7)))
        t.extra["resample_updown_pairs"] += 1
    return t


# ============================================================================= PAD / CROP
def widths_for(extra):
    """The symmetric floor/ceil convention of pad(output_shape=...)."""
    return extra // 2, extra - extra // 2


def crop_spec(before, after):
    # crop takes slice bounds: (start, stop); stop 0 means "to the end"
    return (before, -after if after > 0 else 0)


def check_pad(a, pad_kind, widths, mode, crop_style):
    """pad (by output_shape or pad_width) then crop by the widths. widths: per axis (before, after)."""
    nd = a.ndim
    shape = a.shape
    origin, sampling, _ = meta(nd)
    out_shape = tuple(n + b + c for n, (b, c) in zip(shape, widths))
    d = dataset(a)
    probs = []
    if pad_kind == "output_shape":
        kw = {"output_shape": out_shape}
    elif pad_kind == "pad_width":
        kw = {"pad_width": tuple((b, c) for b, c in widths)}
    elif pad_kind == "pad_width_int":
        kw = {"pad_width": int(widths[0][0])}
    elif pad_kind == "pad_width_pair":
        kw = {"pad_width": (int(widths[0][0]), int(widths[0][1]))}
    else:
        raise ValueError(pad_kind)
    info = {"call": "pad(" + ", ".join(f"{k}={v!r}" for k, v in kw.items()) + f", modify_in_place={mode == 'inplace'})", "expected_shape": out_shape}
    try:
        with warnings.catch_warnings():
            warnings.simplefilter("ignore")
            r = d.pad(modify_in_place=(mode == "inplace"), **kw)
            p = d if mode == "inplace" else r
            pa = np.asarray(p.array)
            info["out_shape"] = tuple(pa.shape)
            if tuple(pa.shape) != out_shape:
                probs.append(("pad_output_shape", f"padded shape {tuple(pa.shape)}, requested {out_shape}"))
            else:
                # the original block sits `before` pixels in, everything else is zero (pixel loop)
                inner = tuple(slice(b, b + n) for n, (b, c) in zip(shape, widths))
                if not np.array_equal(pa[inner], a):
                    probs.append(("pad_places_data", f"the original data is not at offset {[b for b, _ in widths]} of the padded array"))
                else:
                    nz = 0
                    for idx in np.ndindex(*out_shape):
                        inside = all(b <= i < b + n for i, n, (b, c) in zip(idx, shape, widths))
                        if not inside and pa[idx] != 0:
                            nz += 1
                    if nz:
                        probs.append(("pad_fills_zero", f"{nz} padded pixels are not zero"))
            if pa.dtype != a.dtype:
                probs.append(("pad_keeps_dtype", f"dtype {a.dtype} became {pa.dtype}"))
            specs = tuple(crop_spec(b, c) for b, c in widths)
            if crop_style == "all":
                c = p.crop(specs)
            elif crop_style == "axes_tuple":
                c = p.crop(specs, axes=tuple(range(nd)))
            elif crop_style == "axis_by_axis":
                c = p
                for ax in range(nd):
                    c = c.crop((specs[ax],), axes=(ax,))
            elif crop_style == "axis_by_axis_negative":
                c = p
                for ax in range(nd):
                    c = c.crop((specs[ax],), axes=(ax - nd,))
            elif crop_style == "inplace":
                c = p.copy()
                c.crop(specs, modify_in_place=True)
            else:
                raise ValueError(crop_style)
            ca = np.asarray(c.array)
            info["cropped_shape"] = tuple(ca.shape)
            if not (ca.shape == a.shape and np.array_equal(ca, a) and ca.dtype == a.dtype):
                probs.append(("pad_then_crop_identity", f"pad to {out_shape} then crop {specs} gives shape {tuple(ca.shape)}" + ("" if ca.shape != a.shape else " with different data") + f", the original is {shape}"))
            elif not (all(close_meta(x, y) for x, y in zip(c.origin, origin)) and all(close_meta(x, y) for x, y in zip(c.sampling, sampling))):
                probs.append(("pad_then_crop_identity", f"calibration changed: origin {list(map(float, c.origin))}, sampling {list(map(float, c.sampling))}"))
            if mode == "copy" and not np.array_equal(d.array, a):
                probs.append(("copy_leaves_source", "the source dataset changed although modify_in_place=False"))
    except Exception as e:
        info["raised"] = f"{type(e).__name__}: {e}"
        probs.append(("raises", f"raised {type(e).__name__}: {e}"))
        return "raised", probs, info
    return "ok", probs, info


PAD_ORDER = ["raises", "pad_output_shape", "pad_places_data", "pad_fills_zero", "pad_keeps_dtype", "pad_then_crop_identity", "copy_leaves_source"]
CROP_STYLES = ["all", "axes_tuple", "axis_by_axis", "axis_by_axis_negative", "inplace"]


def pad_item(item, seed=0):
    shape, dtype = tuple(item[0]), item[1]
    a = make_array(shape, dtype, seed, tag=6)
    nd = len(shape)
    t = Tally()
    with FreshModule() as fm:
        fm.fresh()
        _pad_lattice(fm, t, a, shape, dtype, nd, seed)
    return t


def _pad_lattice(fm, t, a, shape, dtype, nd, seed):
    earlier, memo = [], {}

    def rec(pad_kind, widths, mode, style):
        status, probs, info = check_pad(a, pad_kind, widths, mode, style)
        case = {"op": "pad", "shape": list(shape), "dtype": dtype, "pad_kind": pad_kind, "widths": [list(w) for w in widths], "mode": mode, "crop_style": style}
        if probs:
            probs.sort(key=lambda p: PAD_ORDER.index(p[0]))
            lattice_failure(fm, t, seed, dict(case, tag=6), earlier, probs, {"op": "pad_crop", "relation": probs[0][0], "pad_kind": pad_kind},
                            f"{dtype}{shape}.{info['call']} then crop[{style}]: {probs[0][1]}", memo)
        earlier.append(dict(case, tag=6))
        nontrivial = status == "ok" and any(b + c > 0 for b, c in widths)
        t.case(key=("pad", shape, dtype, pad_kind, widths, mode, style) if nontrivial else None, nontrivial=nontrivial, outcome=("pad", status, info.get("out_shape"), info.get("cropped_shape")))
        t.extra["pad_" + status] += 1
        if any((b + c) % 2 for b, c in widths):
            t.extra["pad_points_with_odd_extra"] += 1

    for extra in itertools.product(range(5), repeat=nd):  # every output_shape with 0..4 extra pixels per axis
        widths = tuple(widths_for(e) for e in extra)
        for mode in MODES:
            for style in CROP_STYLES:
                rec("output_shape", widths, mode, style)
    if shape == (2, 3) and dtype == "float32":
        st, pr, info = check_pad(a, "output_shape", ((1, 2), (0, 1)), "copy", "all")
        t.sample({"op": "pad+crop", "shape": list(shape), "dtype": dtype, "call": info["call"], "padded_shape": info.get("out_shape"), "crop": [list(crop_spec(1, 2)), list(crop_spec(0, 1))], "cropped_shape": info.get("cropped_shape")}, cap=1)
    if nd <= 2:  # explicit pad_width forms: every (before, after) in {0,1,2}^2 per axis
        for widths in itertools.product(list(itertools.product(range(3), repeat=2)), repeat=nd):
            rec("pad_width", tuple(widths), "copy", "all")
        for w in range(3):
            rec("pad_width_int", tuple((w, w) for _ in range(nd)), "copy", "all")
        for b, c in itertools.product(range(3), repeat=2):
            rec("pad_width_pair", tuple((b, c) for _ in range(nd)), "copy", "all")
    return t


# ============================================================================= CALL HISTORIES
# Shape H inside this lattice check: "a result must not depend on earlier calls". The lattices above execute every point
# on whatever module state the worker happens to be in, so state that survives between calls (a memo keyed too coarsely, a
# cached plan, a mutable default) shows up there only by accident of scheduling. Here the module
# quantem.core.datastructures.dataset is re-imported (importlib.reload) before every history, the history's calls run on the
# Dataset class of the fresh module, and the LAST call is judged by the same oracles as the lattice points. Every call is
# first judged alone (history of length 1); a longer history is a failure of *this* relation only if its last call passes alone.
# The alphabet is built to COLLIDE on coarse keys: same shape and same factor tuple / out_shape / widths on different axis
# subsets, axis orders, negative spellings, reducers, dtypes, forms and in-place vs copying variants.
# Reload safety (checked on HEAD): reload re-executes dataset.py in the same module dict, so the new module-level state is fresh
# and the new Dataset class has an empty dimension registry (only __getitem__ uses it; bin / fourier_resample / pad / crop /
# copy do not). After the histories the original class objects are bound back into the module, so the registry-bearing
# Dataset is again what `from quantem.core.datastructures.dataset import Dataset` returns; Broken if that cannot be confirmed.
HIST_SHAPES = [(4, 4), (3, 4), (4, 3, 4)]


def history_alphabet(quick=True):
    calls = []

    def B(shape, axes, fac, reducer="sum", mode="copy", spelling="tuple", dtype="float64"):
        calls.append({"op": "bin", "shape": list(shape), "dtype": dtype, "axes": list(axes), "factors": list(fac), "reducer": reducer, "mode": mode, "spelling": spelling})

    def R(shape, axes, out, form="out_shape", spelling="tuple", mode="copy", dtype="float64"):
        calls.append({"op": "resample", "part": "history", "shape": list(shape), "dtype": dtype, "axes": list(axes), "out": list(out), "form": form, "spelling": spelling, "mode": mode})

    def P(shape, widths, pad_kind="pad_width", mode="copy", crop_style="axis_by_axis", dtype="float64"):
        calls.append({"op": "pad", "shape": list(shape), "dtype": dtype, "pad_kind": pad_kind, "widths": [list(w) for w in widths], "mode": mode, "crop_style": crop_style})

    for shape in [(4, 4), (3, 4)]:
        B(shape, (0,), (2,))                       # same factor tuple (2,) ...
        B(shape, (1,), (2,))                       # ... on the other axis
        B(shape, (1,), (2,), spelling="negative")  # ... spelled -1
        B(shape, (0,), (2,), spelling="int_axis")
        B(shape, (0, 1), (2, 2))
        B(shape, (0, 1), (2, 3))                   # factor tuple (2,3) on axes (0,1) ...
        B(shape, (0, 1), (3, 2), spelling="permuted")  # ... and bin((2,3), axes=(1,0))
        B(shape, (0, 1), (2, 1))
        B(shape, (0, 1), (1, 2))
        B(shape, (1,), (2,), reducer="mean")
        B(shape, (0,), (2,), reducer="mean")
        B(shape, (1,), (2,), mode="inplace")
        B(shape, (0,), (2,), dtype="int16")
        B(shape, (1,), (2,), dtype="complex64")
        R(shape, (0,), (6,))                       # same out_shape (6,) on axis 0 / axis 1 / -1
        R(shape, (1,), (6,))
        R(shape, (1,), (6,), spelling="negative")
        R(shape, (0,), (6,), form="factors")
        R(shape, (0, 1), (5, 6))                   # out_shape (5,6) on axes (0,1) ...
        R(shape, (0, 1), (6, 5), spelling="permuted")  # ... and out_shape (5,6) on axes (1,0)
        R(shape, (0, 1), (5, 6), spelling="none", mode="inplace")
        R(shape, (1,), (3,), dtype="complex64")
        P(shape, ((1, 2), (0, 0)))                 # same widths on axis 0 ...
        P(shape, ((0, 0), (1, 2)))                 # ... and on axis 1
        P(shape, ((0, 0), (1, 2)), crop_style="axis_by_axis_negative")
        P(shape, ((1, 2), (1, 2)), pad_kind="pad_width_pair", crop_style="all")
        P(shape, ((1, 1), (0, 1)), pad_kind="output_shape", mode="inplace", crop_style="all")
    s3 = (4, 3, 4)
    B(s3, (0,), (2,))
    B(s3, (2,), (2,))
    B(s3, (2,), (2,), spelling="negative")
    B(s3, (0, 1), (2, 2))
    B(s3, (0, 2), (2, 2))
    B(s3, (1, 2), (2, 2))
    B(s3, (0, 2), (2, 2), reducer="mean", mode="inplace")
    B(s3, (0, 1, 2), (2, 3, 2))
    B(s3, (0, 1, 2), (2, 3, 2), spelling="permuted")
    R(s3, (0,), (5,))
    R(s3, (2,), (5,))
    R(s3, (1,), (5,))
    R(s3, (0, 2), (5, 5))
    P(s3, ((1, 0), (0, 0), (0, 0)))
    P(s3, ((0, 0), (0, 0), (1, 0)))
    return calls


def do_call(c, seed):
    """Execute one alphabet call on a fresh Dataset and judge it. Returns (problems, info)."""
    shape = tuple(c["shape"])
    a = make_array(shape, c["dtype"], seed, tag=c.get("tag", 7))
    if c["op"] == "bin":
        st, probs, info = check_bin(a, wide(a).ravel().tolist(), {}, tuple(c["axes"]), tuple(c["factors"]), c["reducer"], c["mode"], c["spelling"])
    elif c["op"] == "resample":
        st, probs, info = check_resample(a, tuple(c["axes"]), tuple(c["out"]), c["form"], c["spelling"], c["mode"])
    elif c["op"] == "pad":
        st, probs, info = check_pad(a, c["pad_kind"], tuple(tuple(w) for w in c["widths"]), c["mode"], c["crop_style"])
    else:
        raise ValueError(c["op"])
    return probs, info


def call_text(c):
    return f"{c['dtype']}{tuple(c['shape'])}." + {"bin": lambda: "bin", "resample": lambda: "fourier_resample", "pad": lambda: "pad+crop"}[c["op"]]() + "(" + ", ".join(
        f"{k}={c[k]!r}" for k in ("axes", "factors", "reducer", "out", "form", "pad_kind", "widths", "crop_style", "spelling", "mode") if k in c) + ")"


_DS_CODE = None  # compiled code of quantem.core.datastructures.dataset, cached per process after the first real reload


def sift(fm, seed, desc, earlier, budget=64):
    """A lattice point failed on the module state its item had reached (every item starts from a fresh module). Re-judge it on a
    freshly imported module. Returns ("alone", None) when it fails there too (a failure of the point itself), else ("history", h)
    with h the shortest history found: [one earlier call of the item, point], or all earlier calls of the item + point."""
    fm.fresh()
    if do_call(desc, seed)[0]:
        return "alone", None
    for c in reversed(earlier[-budget:]):
        fm.fresh()
        do_call(c, seed)
        if do_call(desc, seed)[0]:
            fm.fresh()
            return "history", [c, desc]
    fm.fresh()
    return "history", list(earlier) + [desc]


def lattice_failure(fm, t, seed, desc, earlier, probs, cls_point, msg_point, memo):
    """Record a failing lattice point: as a failure of the point if it also fails alone on a fresh module, otherwise as a
    dependence on earlier calls with the shortest history (isolated for the first two such points of an item)."""
    if memo.get("n", 0) < 2:
        kind, hist = sift(fm, seed, desc, earlier)
    else:
        fm.fresh()
        kind, hist = ("alone", None) if do_call(desc, seed)[0] else ("history", memo["hist"])
        fm.fresh()
    if kind == "alone":
        t.fail(cls_point, {k: v for k, v in desc.items() if k != "tag"}, msg_point)
        return
    memo["n"] = memo.get("n", 0) + 1
    memo.setdefault("hist", hist)
    t.extra["lattice_points_failing_only_after_earlier_calls"] += 1
    t.fail({"op": desc["op"], "relation": "result_independent_of_earlier_calls", "broken": probs[0][0], "via": "lattice"},
           {"op": "history", "history": hist},
           (f"after {' ; '.join(call_text(c) for c in hist[:-1])} " if len(hist) <= 3 else f"after the {len(hist) - 1} earlier calls of its lattice item ")
           + f"the call {call_text(hist[-1])} fails: {probs[0][1] if hist[-1] is desc else '(first isolated point of this item)'} (alone, on a freshly imported module, it passes)"
           + ("" if hist[-1] is desc else f"; same dependence at {call_text(desc)}: {probs[0][1]}"))


class FreshModule:
    """Re-import of quantem.core.datastructures.dataset before every history; original classes bound back at exit."""

    def __enter__(self):
        import importlib
        import sys

        global _DATASET_CLS
        self.importlib = importlib
        self.mod = sys.modules.get("quantem.core.datastructures.dataset") or importlib.import_module("quantem.core.datastructures.dataset")
        self.orig = {k: v for k, v in vars(self.mod).items() if isinstance(v, type) and getattr(v, "__module__", None) == self.mod.__name__}
        self.registry = dict(getattr(self.orig.get("Dataset"), "_registry", {}))
        return self

    def _reexec(self):
        """Fresh module state: the first time in a process through importlib.reload, afterwards by re-executing the module's
        compiled code in the module dict — exactly what reload does, without re-reading and re-compiling the source (40 ms)."""
        global _DS_CODE
        if _DS_CODE is None:
            self.importlib.reload(self.mod)
            try:
                _DS_CODE = self.mod.__spec__.loader.get_code(self.mod.__name__)
            except Exception:
                _DS_CODE = False
        elif _DS_CODE is False:
            self.importlib.reload(self.mod)
        else:
            exec(_DS_CODE, self.mod.__dict__)

    def fresh(self):
        global _DATASET_CLS
        self._reexec()
        _DATASET_CLS = self.mod.Dataset

    def __exit__(self, *exc):
        global _DATASET_CLS
        _DATASET_CLS = None
        self._reexec()  # leave fresh module-level state behind ...
        for k, v in self.orig.items():  # ... and the original, registry-bearing classes
            setattr(self.mod, k, v)
        import quantem.core.datastructures as pkg
        from quantem.core.datastructures.dataset import Dataset as now

        if now is not self.orig.get("Dataset") or pkg.Dataset is not now or dict(getattr(now, "_registry", {})) != self.registry:
            raise Broken("the Dataset class / dimension registry could not be restored after the module reloads")
        return False


def history_item(item, seed=0, depth=2, quick=True):
    """All histories whose first call is alphabet[item]; the last call of each is judged."""
    calls = history_alphabet(quick)
    first = calls[item]
    t = Tally()
    with FreshModule() as fm:
        # every call alone (only in the item that starts with it)
        fm.fresh()
        alone_probs, info = do_call(first, seed)
        t.case(key=("hist", 1, item), nontrivial=False, outcome=("hist-alone", item, info.get("out_shape"), not alone_probs))
        t.extra["history_single_calls"] += 1
        if alone_probs:
            t.fail({"op": first["op"], "relation": alone_probs[0][0], "spelling": first.get("spelling", first.get("pad_kind")), "via": "history-alone"},
                   {"op": "history", "history": [first]}, f"alone, on a freshly imported module: {call_text(first)}: {alone_probs[0][1]}")
        tails = [[j] for j in range(len(calls))]
        if depth >= 3:
            tails += [[m, j] for m in range(0, len(calls), 3) for j in range(len(calls))]
        alone_ok = {}
        for tail in tails:
            last = calls[tail[-1]]
            fm.fresh()
            hist = [first] + [calls[j] for j in tail]
            for c in hist[:-1]:
                do_call(c, seed)
            probs, info = do_call(last, seed)
            t.extra["history_sequences"] += 1
            nontrivial = any(h != last for h in hist[:-1])
            t.case(key=("hist", item, tuple(tail)) if nontrivial else None, nontrivial=nontrivial, outcome=("hist", item, tuple(tail), not probs))
            if probs and tail[-1] not in alone_ok:  # judged alone only when needed: a call that fails alone is reported by its own item
                fm.fresh()
                alone_ok[tail[-1]] = not do_call(last, seed)[0]
            if probs and alone_ok[tail[-1]]:
                probs.sort(key=lambda p: (BIN_ORDER + FR_ORDER + PAD_ORDER).index(p[0]))
                t.fail({"op": last["op"], "relation": "result_independent_of_earlier_calls", "broken": probs[0][0]},
                       {"op": "history", "history": hist},
                       f"after {' ; '.join(call_text(c) for c in hist[:-1])} the call {call_text(last)} fails: {probs[0][1]} (alone, on a freshly imported module, it passes)")
    return t


# ============================================================================= MEMORY LAYOUTS and ARGUMENT SPELLINGS
# Two cross-cutting dimensions on a sub-lattice of the three operations.
# (a) layout of the array handed to Dataset.from_array (the library keeps that array, it does not copy): C, Fortran, transposed view,
#     axis-permuted view, strided view of a larger buffer, negative strides, read-only, broadcast view (zero stride, read-only), incl.
#     size-1 corners. The oracles work on the LOGICAL contents, so they are layout-independent by construction; the source array must
#     keep its bytes, flags and strides. On HEAD no operation writes into the source, so read-only / broadcast sources must work in-place too.
# (b) spellings of the arguments: reducer in other letter cases, factors / out_shape / widths / axes as NumPy integer scalars, 0-d arrays,
#     lists, tuples, ndarrays, float32 ... Differential oracle: a spelling is either REJECTED (an exception, and the dataset — array,
#     origin, sampling — exactly as before, in-place variants included) or gives the BIT-IDENTICAL result of the canonical spelling.
#     Accepted / rejected counts per spelling are written to the evidence, so a flip is visible.
def _factors_123(shape, axes):
    return list(itertools.product([1, 2, 3], repeat=len(axes)))


def layout_shapes(op, quick):
    if op == "bin":
        return [(4, 6), (5, 4), (1, 1), (4, 3, 4)] if quick else [(4, 6), (5, 4), (6, 6), (1, 1), (7,), (4, 3, 4), (2, 4, 6), (2, 2, 4, 2)]
    if op == "resample":
        return [(4, 5), (1, 1), (3, 4, 3)] if quick else [(4, 5), (5, 4), (1, 1), (6,), (3, 4, 3), (2, 3, 4)]
    return [(3, 4), (1, 1), (2, 3, 2)] if quick else [(3, 4), (4, 3), (1, 1), (5,), (2, 3, 2), (3, 2, 2)]


def layout_items(quick):
    dts = ["float64", "int16"] if quick else DTYPES
    items = []
    for op in ("bin", "resample", "pad"):
        for shape in layout_shapes(op, quick):
            for dt in (dts if op != "resample" or not quick else ["float64", "complex64"]):
                items.append((op, shape, dt))
    return items


def layout_calls(op, shape, dtype):
    """The reduced lattice of one operation as call descriptors (same format as the call-history alphabet)."""
    nd = len(shape)
    out = []
    if op == "bin":
        for axes in axis_subsets(nd):
            for fac in _factors_123(shape, axes):
                for red in REDUCERS:
                    for mode in MODES:
                        out.append({"op": "bin", "shape": list(shape), "dtype": dtype, "axes": list(axes), "factors": list(fac), "reducer": red, "mode": mode, "spelling": "tuple"})
    elif op == "resample":
        for axes in axis_subsets(nd):
            for o in itertools.product(*[sorted({max(1, shape[ax] - 1), shape[ax] + 1, 2 * shape[ax]}) for ax in axes]):
                for mode in MODES:
                    out.append({"op": "resample", "part": "layout", "shape": list(shape), "dtype": dtype, "axes": list(axes), "out": list(o), "form": "out_shape", "spelling": "tuple", "mode": mode})
    else:
        for extra in itertools.product(range(3), repeat=nd):
            for mode in MODES:
                for style in ("all", "axis_by_axis"):
                    out.append({"op": "pad", "shape": list(shape), "dtype": dtype, "pad_kind": "output_shape", "widths": [list(widths_for(e)) for e in extra], "mode": mode, "crop_style": style})
    return out


def do_call_on(c, a):
    """Like do_call but on a given logical array."""
    if c["op"] == "bin":
        return check_bin(a, wide(a).ravel().tolist(), {}, tuple(c["axes"]), tuple(c["factors"]), c["reducer"], c["mode"], c["spelling"])
    if c["op"] == "resample":
        return check_resample(a, tuple(c["axes"]), tuple(c["out"]), c["form"], c["spelling"], c["mode"])
    return check_pad(a, c["pad_kind"], tuple(tuple(w) for w in c["widths"]), c["mode"], c["crop_style"])


def layout_item(item, seed=0):
    global _LAYOUT, _LAST_SOURCE
    op, shape, dtype = item[0], tuple(item[1]), item[2]
    base = make_array(shape, dtype, seed, tag=8)
    calls = layout_calls(op, shape, dtype)
    order = BIN_ORDER + FR_ORDER + PAD_ORDER + ["source_array_untouched"]
    t = Tally()
    with FreshModule() as fm:
        fm.fresh()
        try:
            for layout in LAYOUTS:
                a = logical_for(base, layout)
                for c in calls:
                    _LAYOUT, _LAST_SOURCE = layout, None
                    status, probs, info = do_call_on(c, a)
                    sp = source_problem(a)
                    if sp:
                        probs.append(("source_array_untouched", sp))
                    _LAYOUT = None
                    case = dict(c, op_kind=c["op"], layout=layout)
                    case["op"] = "layout"
                    if probs:
                        probs.sort(key=lambda q: order.index(q[0]))
                        more = f" [also: {', '.join(r for r, _ in probs[1:])}]" if len(probs) > 1 else ""
                        t.fail({"op": c["op"], "relation": probs[0][0], "layout": layout, "via": "layout"}, case, f"source array in layout '{layout}': {call_text(c)}: {probs[0][1]}{more}")
                    out_shape = info.get("out_shape")
                    nontrivial = layout != "C" and status == "ok" and out_shape is not None and (tuple(out_shape) != shape or c["op"] == "pad")
                    t.case(key=("layout", layout, json_key(c)) if nontrivial else None, nontrivial=nontrivial, outcome=("layout", c["op"], layout, status, out_shape, not probs))
                    t.extra["layout_points"] += 1
                    t.extra["layout_points_" + layout] += 1
        finally:
            _LAYOUT, _LAST_SOURCE = None, None
    return t


def json_key(c):
    import json

    return json.dumps(c, sort_keys=True, default=repr)


# ---- spellings
def _i64(x):
    return np.int64(x)


def _u8(x):
    return np.uint8(x)


def _zero_d(x):
    return np.array(x)


def seq_spellings(vals, floats=False):
    """Other ways to write a tuple of numbers."""
    vals = list(vals)
    sp = {
        "list": list(vals),
        "ndarray": np.array(vals),
        "tuple_np_int64": tuple(np.int64(v) for v in vals) if not floats else tuple(np.float64(v) for v in vals),
        "tuple_0d_arrays": tuple(np.array(v) for v in vals),
        "tuple_np_float32": tuple(np.float32(v) for v in vals),
    }
    if not floats:
        if all(0 <= v <= 255 for v in vals):
            sp["tuple_np_uint8"] = tuple(np.uint8(v) for v in vals)
        sp["ndarray_int32"] = np.array(vals, dtype=np.int32)
        sp["tuple_python_float"] = tuple(float(v) for v in vals)
    return sp


def scalar_spellings(v, floats=False):
    sp = {"np_float32": np.float32(v), "0d_array": np.array(v)}
    if floats:
        sp["np_float64"] = np.float64(v)
    else:
        sp["np_int64"] = np.int64(v)
        sp["np_uint8"] = np.uint8(v)
        sp["python_float"] = float(v)
    return sp


def axes_spellings(axes):
    axes = list(axes)
    sp = {"list": list(axes), "ndarray": np.array(axes), "tuple_np_int64": tuple(np.int64(x) for x in axes)}
    if len(axes) == 1:
        sp["np_int64_scalar"] = np.int64(axes[0])
        sp["python_int"] = int(axes[0])
    return sp


def snapshot(d):
    arr = np.asarray(d.array)
    return (arr.shape, str(arr.dtype), arr.tobytes(), tuple(float(x) for x in d.origin), tuple(float(x) for x in d.sampling))


def run_spelled(a, method, kwargs, inplace, post=None):
    """Execute d.<method>(**kwargs) on a fresh dataset. Returns ("ok", snapshot of the result) or ("exc", text, dataset unchanged?)."""
    d = dataset(a)
    before = snapshot(d)
    try:
        with warnings.catch_warnings():
            warnings.simplefilter("ignore")
            with np.errstate(all="ignore"):
                r = getattr(d, method)(**kwargs)
                if post is not None:
                    r = post(d if inplace else r)
    except Exception as e:
        return ("exc", f"{type(e).__name__}: {e}", snapshot(d) == before)
    res = d if (inplace and post is None) else r
    if res is None or not hasattr(res, "array"):
        return ("bad", f"returned {type(r).__name__}")
    return ("ok", snapshot(res), snapshot(d) == before)


def spelling_points(op, shape):
    """(label of the canonical call, method, canonical kwargs, inplace?, {spelling label: kwargs}, post) for one op and shape."""
    nd = len(shape)
    pts = []
    if op == "bin":
        for axes in axis_subsets(nd):
            for fac in _factors_123(shape, axes):
                for red in REDUCERS:
                    for mode in MODES:
                        base = {"bin_factors": tuple(fac), "axes": tuple(axes), "reducer": red, "modify_in_place": mode == "inplace"}
                        alts = {}
                        for r in (red.capitalize(), red.upper(), red[0] + red[1:].upper()):
                            alts["reducer=" + r] = dict(base, reducer=r)
                        for k, v in seq_spellings(fac).items():
                            alts["factors:" + k] = dict(base, bin_factors=v)
                        if len(set(fac)) == 1:
                            for k, v in scalar_spellings(fac[0]).items():
                                alts["factor_scalar:" + k] = dict(base, bin_factors=v)
                        for k, v in axes_spellings(axes).items():
                            if k in ("np_int64_scalar", "python_int"):
                                alts["axes:" + k] = dict(base, axes=v, bin_factors=int(fac[0]))
                            else:
                                alts["axes:" + k] = dict(base, axes=v)
                        canon = dict(base)
                        if len(axes) == 1 and False:
                            pass
                        pts.append((f"bin({tuple(fac)}, axes={tuple(axes)}, reducer={red!r}, modify_in_place={mode == 'inplace'})", "bin", canon, mode == "inplace", alts, None))
    elif op == "resample":
        for axes in axis_subsets(nd):
            for o in itertools.product(*[sorted({max(1, shape[ax] // 2), shape[ax] + shape[ax] // 2, 2 * shape[ax]}) for ax in axes]):
                for mode in MODES:
                    base = {"out_shape": tuple(int(x) for x in o), "axes": tuple(axes), "modify_in_place": mode == "inplace"}
                    alts = {}
                    for k, v in seq_spellings(o).items():
                        alts["out_shape:" + k] = dict(base, out_shape=v)
                    for k, v in axes_spellings(axes).items():
                        alts["axes:" + k] = dict(base, axes=v)
                    fac = tuple(m / shape[ax] for ax, m in zip(axes, o))  # exactly representable: axis lengths are powers of two
                    fbase = {"factors": fac, "axes": tuple(axes), "modify_in_place": mode == "inplace"}
                    alts["factors:tuple"] = dict(fbase)
                    for k, v in seq_spellings(fac, floats=True).items():
                        alts["factors:" + k] = dict(fbase, factors=v)
                    if len(set(fac)) == 1:
                        alts["factor_scalar:python_float"] = dict(fbase, factors=float(fac[0]))
                        for k, v in scalar_spellings(fac[0], floats=True).items():
                            alts["factor_scalar:" + k] = dict(fbase, factors=v)
                    pts.append((f"fourier_resample(out_shape={tuple(o)}, axes={tuple(axes)}, modify_in_place={mode == 'inplace'})", "fourier_resample", base, mode == "inplace", alts, None))
    else:
        for extra in itertools.product(range(3), repeat=nd):
            widths = [widths_for(e) for e in extra]
            out_shape = tuple(n + b + c for n, (b, c) in zip(shape, widths))
            specs = tuple(crop_spec(b, c) for b, c in widths)
            for mode in MODES:
                base = {"output_shape": out_shape, "modify_in_place": mode == "inplace"}
                alts = {}
                for k, v in seq_spellings(out_shape).items():
                    alts["output_shape:" + k] = dict(base, output_shape=v)
                pw = tuple((int(b), int(c)) for b, c in widths)
                alts["pad_width:tuple"] = {"pad_width": pw, "modify_in_place": mode == "inplace"}
                alts["pad_width:lists"] = {"pad_width": [list(w) for w in pw], "modify_in_place": mode == "inplace"}
                alts["pad_width:ndarray"] = {"pad_width": np.array(pw), "modify_in_place": mode == "inplace"}
                alts["pad_width:tuple_np_int64"] = {"pad_width": tuple((np.int64(b), np.int64(c)) for b, c in pw), "modify_in_place": mode == "inplace"}
                pts.append((f"pad(output_shape={out_shape}, modify_in_place={mode == 'inplace'})", "pad", base, mode == "inplace", alts, None))
                # crop of the padded dataset: spellings of the widths and of the axes
                cbase = {"crop_widths": specs, "modify_in_place": mode == "inplace"}
                calts = {
                    "crop_widths:lists": dict(cbase, crop_widths=[list(w) for w in specs]),
                    "crop_widths:ndarray": dict(cbase, crop_widths=np.array(specs)),
                    "crop_widths:tuple_np_int64": dict(cbase, crop_widths=tuple((np.int64(b), np.int64(c)) for b, c in specs)),
                    "crop_widths:tuple_0d_arrays": dict(cbase, crop_widths=tuple((np.array(b), np.array(c)) for b, c in specs)),
                    "crop_widths:tuple_python_float": dict(cbase, crop_widths=tuple((float(b), float(c)) for b, c in specs)),
                    "axes:tuple": dict(cbase, axes=tuple(range(nd))),
                    "axes:list": dict(cbase, axes=list(range(nd))),
                    "axes:ndarray": dict(cbase, axes=np.arange(nd)),
                    "axes:tuple_np_int64": dict(cbase, axes=tuple(np.int64(i) for i in range(nd))),
                }
                pts.append((f"pad(output_shape={out_shape}) then crop({specs}, modify_in_place={mode == 'inplace'})", "crop", cbase, mode == "inplace", calts, out_shape))
    return pts


def spelling_shapes(op, quick):
    if op == "bin":
        return [(4, 6), (4, 3, 4)] if quick else [(4, 6), (5, 4), (6,), (4, 3, 4), (2, 4, 6)]
    if op == "resample":
        return [(4, 4), (4, 2, 4)] if quick else [(4, 4), (2, 8), (8,), (4, 2, 4), (2, 4, 2)]
    return [(3, 4), (2, 3, 2)] if quick else [(3, 4), (4, 3), (5,), (2, 3, 2)]


def spelling_items(quick):
    items = []
    for op in ("bin", "resample", "pad"):
        for shape in spelling_shapes(op, quick):
            for dt in (["float64", "int16"] if quick else ["float64", "int16", "complex64", "float32"]):
                items.append((op, shape, dt))
    return items


def spelling_item(item, seed=0):
    op, shape, dtype = item[0], tuple(item[1]), item[2]
    a0 = make_array(shape, dtype, seed, tag=9)
    t = Tally()
    with FreshModule() as fm:
        fm.fresh()
        for label, method, canon, inplace, alts, padded_to in spelling_points(op, shape):
            a = a0
            if padded_to is not None:  # crop works on the padded data
                widths = [(b, c) for b, c in (widths_for(e - n) for e, n in zip(padded_to, shape))]
                a = np.pad(a0, widths)
            ref = run_spelled(a, method, canon, inplace)
            case0 = {"op": "spelling", "op_kind": op, "shape": list(shape), "dtype": dtype, "canonical": label}
            if ref[0] != "ok":
                t.fail({"op": op, "relation": "canonical_spelling_works", "via": "spelling"}, dict(case0, spelling="canonical"), f"{dtype}{shape}.{label} (canonical spelling): {ref[1]}")
                t.case(key=None, nontrivial=False, outcome=("spelling", "canonical-failed"))
                continue
            if not inplace and not ref[2]:
                t.fail({"op": op, "relation": "copy_leaves_source", "via": "spelling"}, dict(case0, spelling="canonical"), f"{dtype}{shape}.{label}: the source dataset changed although modify_in_place=False")
            for sname, kw in alts.items():
                r = run_spelled(a, method, kw, inplace)
                case = dict(case0, spelling=sname)
                shown = ", ".join(f"{k}={v!r}" for k, v in kw.items())
                cls = {"op": op, "relation": None, "spelling": sname.split("=")[0] if sname.startswith("reducer") else sname, "via": "spelling"}
                if r[0] == "exc":
                    t.extra["spelling_rejected"] += 1
                    t.extra["spelling_rejected:" + op + ":" + (sname.split("=")[0] if sname.startswith("reducer") else sname)] += 1
                    if not r[2]:
                        t.fail(dict(cls, relation="rejected_spelling_changes_nothing"), case, f"{dtype}{shape}.{method}({shown}) raised {r[1]} but the dataset is no longer what it was before the call")
                    t.case(key=None, nontrivial=False, outcome=("spelling", op, sname, "rejected"))
                    continue
                t.extra["spelling_accepted"] += 1
                t.extra["spelling_accepted:" + op + ":" + (sname.split("=")[0] if sname.startswith("reducer") else sname)] += 1
                if r[0] != "ok" or r[1] != ref[1]:
                    if r[0] == "ok":
                        ra = np.frombuffer(r[1][2], dtype=r[1][1]).reshape(r[1][0]) if r[1][0] == ref[1][0] and r[1][1] == ref[1][1] else None
                        fa = np.frombuffer(ref[1][2], dtype=ref[1][1]).reshape(ref[1][0])
                        what = (f"shape/dtype {r[1][0]} {r[1][1]} vs {ref[1][0]} {ref[1][1]}" if ra is None else
                                f"first values {ra.ravel()[:4].tolist()} vs {fa.ravel()[:4].tolist()}, origin {r[1][3]} vs {ref[1][3]}, sampling {r[1][4]} vs {ref[1][4]}")
                    else:
                        what = r[1]
                    t.fail(dict(cls, relation="accepted_spelling_equals_canonical"), case, f"{dtype}{shape}.{method}({shown}) was accepted but differs from the canonical {label}: {what}")
                elif not inplace and not r[2]:
                    t.fail(dict(cls, relation="copy_leaves_source"), case, f"{dtype}{shape}.{method}({shown}): the source dataset changed although modify_in_place=False")
                t.case(key=("spelling", op, shape, dtype, label, sname), nontrivial=True, outcome=("spelling", op, sname, "accepted", r[0] == "ok" and r[1] == ref[1]))
            t.extra["spelling_canonical_points"] += 1
    return t


# ============================================================================= COPIES and RE-ENTRANT families
# COPIES: snapshot (copy.copy / copy.deepcopy / pickle round trip / ds.copy()) taken BEFORE an operation; the operation is applied to the
# original (and, separately, to the snapshot); the OTHER object must be bit-identical to what it was (array, dtype, shape, origin,
# sampling, units) and must still obey the conservation laws when an operation is applied to it afterwards (judged by the lattice oracles).
# RE-ENTRANT: a user subclass overriding the documented hook `_copy_custom_attributes` so that the hook runs an operation on the source
# while the outer (copying) operation is in progress: inner and outer results equal the results of the two calls made one after the
# other, the source is unchanged; a hook that raises leaves the source unchanged; a two-thread variant pins the interleaving with
# threading.Event inside the hook (thread A parked in the hook, thread B runs one full operation on the same dataset, A resumes).
COPY_KINDS = ["copy.copy", "copy.deepcopy", "pickle", "ds.copy()"]


def ds_state(d):
    arr = np.asarray(d.array)
    return (arr.shape, str(arr.dtype), arr.tobytes(), np.asarray(d.origin, dtype=np.float64).tobytes(), np.asarray(d.sampling, dtype=np.float64).tobytes(), tuple(d.units))


def make_copy(d, kind):
    import copy
    import pickle

    if kind == "copy.copy":
        return copy.copy(d)
    if kind == "copy.deepcopy":
        return copy.deepcopy(d)
    if kind == "pickle":
        return pickle.loads(pickle.dumps(d))
    return d.copy()


def first_ops(shape):
    nd = len(shape)
    ops = []
    for mode in MODES:
        ip = mode == "inplace"
        ops.append((f"bin(2, modify_in_place={ip})", lambda d, ip=ip: d.bin(2, modify_in_place=ip)))
        ops.append((f"bin(2, axes=(0,), reducer='mean', modify_in_place={ip})", lambda d, ip=ip: d.bin(2, axes=(0,), reducer="mean", modify_in_place=ip)))
        ops.append((f"fourier_resample(out_shape={tuple(n + 1 for n in shape)}, modify_in_place={ip})", lambda d, ip=ip: d.fourier_resample(out_shape=tuple(n + 1 for n in shape), modify_in_place=ip)))
        ops.append((f"pad(output_shape={tuple(n + 3 for n in shape)}, modify_in_place={ip})", lambda d, ip=ip: d.pad(output_shape=tuple(n + 3 for n in shape), modify_in_place=ip)))
        ops.append((f"crop({((1, 0),) * nd}, modify_in_place={ip})", lambda d, ip=ip: d.crop(((1, 0),) * nd, modify_in_place=ip)))
    return ops


def follow_ups(shape, dtype):
    nd = len(shape)
    return [
        {"op": "bin", "shape": list(shape), "dtype": dtype, "axes": list(range(nd)), "factors": [2] * nd, "reducer": "sum", "mode": "copy", "spelling": "tuple"},
        {"op": "bin", "shape": list(shape), "dtype": dtype, "axes": [nd - 1], "factors": [2], "reducer": "mean", "mode": "inplace", "spelling": "tuple"},
        {"op": "resample", "part": "copies", "shape": list(shape), "dtype": dtype, "axes": list(range(nd)), "out": [n + 2 for n in shape], "form": "out_shape", "spelling": "tuple", "mode": "copy"},
        {"op": "pad", "shape": list(shape), "dtype": dtype, "pad_kind": "output_shape", "widths": [list(widths_for(3)) for _ in shape], "mode": "copy", "crop_style": "all"},
    ]


def copies_item(item, seed=0):
    global _DATASET_OBJ
    shape, dtype = tuple(item[0]), item[1]
    a = make_array(shape, dtype, seed, tag=10)
    t = Tally()
    with FreshModule():
        pass
    for kind in COPY_KINDS:
        for opname, op in first_ops(shape):
            for target in ("original", "copy"):
                for fu in follow_ups(shape, dtype):
                    d = dataset(a)
                    try:
                        snap = make_copy(d, kind)
                    except Exception as e:
                        t.extra["copies_copy_kind_rejected:" + kind] += 1
                        t.case(key=None, nontrivial=False, outcome=("copies", kind, "rejected", type(e).__name__))
                        continue
                    acted, other = (d, snap) if target == "original" else (snap, d)
                    before = ds_state(other)
                    case = {"op": "copies", "shape": list(shape), "dtype": dtype, "copy_kind": kind, "first_op": opname, "applied_to": target, "follow_up": fu}
                    cls = {"op": "copies", "relation": None, "copy_kind": kind, "applied_to": target}
                    shown = f"{dtype}{shape}: snapshot by {kind}, then {opname} on the {target}"
                    t.extra["copies_points"] += 1
                    try:
                        with warnings.catch_warnings():
                            warnings.simplefilter("ignore")
                            op(acted)
                    except Exception as e:
                        t.fail(dict(cls, relation="raises"), case, f"{shown}: raised {type(e).__name__}: {e}")
                        t.case(key=None, nontrivial=False, outcome=("copies", "raised"))
                        continue
                    probs = []
                    if ds_state(other) != before:
                        now = ds_state(other)
                        what = [n for n, x, y in zip(("shape", "dtype", "array", "origin", "sampling", "units"), before, now) if x != y]
                        probs.append(("other_object_untouched", f"the {'copy' if target == 'original' else 'original'} changed: {', '.join(what)} differ (shape {np.asarray(other.array).shape}, origin {[float(x) for x in other.origin]}, sampling {[float(x) for x in other.sampling]})"))
                    # the other object still obeys the laws
                    _DATASET_OBJ = other
                    try:
                        st, pr, info = do_call_on(fu, a)
                    finally:
                        _DATASET_OBJ = None
                    pr = [q for q in pr if q[0] != "copy_leaves_source"] + [q for q in pr if q[0] == "copy_leaves_source"]
                    if pr:
                        probs.append(("laws_hold_on_the_other_object", f"then {call_text(fu)} on the {'copy' if target == 'original' else 'original'}: {pr[0][0]}: {pr[0][1]}"))
                    for rel, msg in probs:
                        t.fail(dict(cls, relation=rel), dict(case, relation=rel), f"{shown}: {msg}")
                    t.case(key=("copies", shape, dtype, kind, opname, target, json_key(fu)), nontrivial=True, outcome=("copies", kind, opname, target, fu["op"], tuple(r for r, _ in probs)))
    return t


REENTRANT_OPS = ["bin_all", "bin_axis0_mean", "resample", "pad", "crop"]


def reentrant_op(name, shape):
    nd = len(shape)
    if name == "bin_all":
        return lambda d: d.bin(2)
    if name == "bin_axis0_mean":
        return lambda d: d.bin(2, axes=(0,), reducer="mean")
    if name == "resample":
        return lambda d: d.fourier_resample(out_shape=tuple(n + 1 for n in shape))
    if name == "pad":
        return lambda d: d.pad(output_shape=tuple(n + 3 for n in shape))
    if name == "crop":
        return lambda d: d.crop(((1, 0),) * nd)
    raise ValueError(name)


def reentrant_item(item, seed=0):
    import threading

    shape, dtype = tuple(item[0]), item[1]
    a = make_array(shape, dtype, seed, tag=11)
    origin, sampling, units = meta(len(shape))
    t = Tally()
    with FreshModule():
        pass
    from quantem.core.datastructures import Dataset

    class Hooked(Dataset):
        """User subclass using the documented hook."""

        _hook = None  # callable(self) run inside _copy_custom_attributes, once (not for the hook's own nested copies)
        _busy = False

        def _copy_custom_attributes(self, new_dataset):
            super()._copy_custom_attributes(new_dataset)
            h = type(self)._hook
            if h is not None and not type(self)._busy:
                type(self)._busy = True
                try:
                    h(self)
                finally:
                    type(self)._busy = False

    def fresh():
        return Hooked.from_array(a.copy(), origin=list(origin), sampling=list(sampling), units=list(units))

    alone = {}
    for name in REENTRANT_OPS:
        Hooked._hook = None
        src = fresh()
        alone[name] = ds_state(reentrant_op(name, shape)(src))
    src0 = ds_state(fresh())

    for outer in REENTRANT_OPS:
        for inner in REENTRANT_OPS:
            # ---- single thread: the hook runs the inner operation on the source while the outer one is in progress
            box = {}
            Hooked._hook = lambda self, inner=inner: box.__setitem__("inner", ds_state(reentrant_op(inner, shape)(self)))
            src = fresh()
            case = {"op": "reentrant", "variant": "hook", "shape": list(shape), "dtype": dtype, "outer": outer, "inner": inner}
            cls = {"op": "reentrant", "relation": None, "variant": "hook"}
            shown = f"{dtype}{shape}: subclass hook _copy_custom_attributes runs {inner} on the source during the copying {outer}"
            t.extra["reentrant_points"] += 1
            try:
                with warnings.catch_warnings():
                    warnings.simplefilter("ignore")
                    out = ds_state(reentrant_op(outer, shape)(src))
            except Exception as e:
                t.fail(dict(cls, relation="raises"), case, f"{shown}: raised {type(e).__name__}: {e}")
                continue
            finally:
                Hooked._hook = None
            probs = []
            if "inner" not in box:
                probs.append(("hook_called", "the hook was not called by the copying operation"))
            elif box["inner"] != alone[inner]:
                probs.append(("inner_result_equals_sequential", f"the inner {inner} gave shape {box['inner'][0]} / different data, origin or sampling than the same call made alone (shape {alone[inner][0]})"))
            if out != alone[outer]:
                probs.append(("outer_result_equals_sequential", f"the outer {outer} differs from the same call made alone"))
            if ds_state(src) != src0:
                probs.append(("source_unchanged", "the source dataset changed"))
            for rel, msg in probs:
                t.fail(dict(cls, relation=rel), dict(case, relation=rel), f"{shown}: {msg}")
            t.case(key=("reentrant", "hook", shape, dtype, outer, inner), nontrivial=True, outcome=("reentrant", "hook", outer, inner, tuple(r for r, _ in probs)))

            # ---- two threads, interleaving pinned: A parked in the hook, B runs the inner operation completely, A resumes
            parked, go = threading.Event(), threading.Event()
            res = {}
            main_id = {}

            def hook(self):
                if threading.get_ident() == main_id.get("A"):
                    parked.set()
                    go.wait(10)

            Hooked._hook = hook
            src = fresh()

            def run_a():
                main_id["A"] = threading.get_ident()
                try:
                    res["A"] = ds_state(reentrant_op(outer, shape)(src))
                except Exception as e:
                    res["A"] = f"raised {type(e).__name__}: {e}"

            th = threading.Thread(target=run_a)
            th.start()
            ok = parked.wait(10)
            try:
                with warnings.catch_warnings():
                    warnings.simplefilter("ignore")
                    Hooked._busy = False  # B's own copy must call (and pass straight through) the hook
                    res["B"] = ds_state(reentrant_op(inner, shape)(src)) if ok else "thread A never reached the hook"
            except Exception as e:
                res["B"] = f"raised {type(e).__name__}: {e}"
            go.set()
            th.join(10)
            Hooked._hook = None
            Hooked._busy = False
            case = dict(case, variant="two_threads")
            cls = {"op": "reentrant", "relation": None, "variant": "two_threads"}
            shown = f"{dtype}{shape}: thread A parked in the hook of the copying {outer}, thread B runs {inner} on the same dataset, A resumes"
            t.extra["reentrant_points"] += 1
            probs = []
            if res.get("B") != alone[inner]:
                probs.append(("inner_result_equals_sequential", f"thread B's {inner} " + (res["B"] if isinstance(res.get("B"), str) else f"gave shape {res['B'][0]} / different data, origin or sampling than the same call made alone (shape {alone[inner][0]})")))
            if res.get("A") != alone[outer]:
                probs.append(("outer_result_equals_sequential", f"thread A's {outer} " + (res["A"] if isinstance(res.get("A"), str) else "differs from the same call made alone")))
            if ds_state(src) != src0:
                probs.append(("source_unchanged", "the source dataset changed"))
            for rel, msg in probs:
                t.fail(dict(cls, relation=rel), dict(case, relation=rel), f"{shown}: {msg}")
            t.case(key=("reentrant", "threads", shape, dtype, outer, inner), nontrivial=True, outcome=("reentrant", "threads", outer, inner, tuple(r for r, _ in probs)))

        # ---- a hook that raises: the source must be what it was
        def boom(self):
            raise RuntimeError("user hook failed")

        Hooked._hook = boom
        src = fresh()
        raised = False
        try:
            reentrant_op(outer, shape)(src)
        except RuntimeError:
            raised = True
        except Exception:
            raised = True
        finally:
            Hooked._hook = None
            Hooked._busy = False
        case = {"op": "reentrant", "variant": "raising_hook", "shape": list(shape), "dtype": dtype, "outer": outer, "inner": None}
        t.extra["reentrant_points"] += 1
        if ds_state(src) != src0:
            t.fail({"op": "reentrant", "relation": "source_unchanged", "variant": "raising_hook"}, dict(case, relation="source_unchanged"), f"{dtype}{shape}: the hook raised during the copying {outer} and the source dataset is no longer what it was")
        t.case(key=("reentrant", "raise", shape, dtype, outer), nontrivial=True, outcome=("reentrant", "raise", outer, raised))
    return t


# ============================================================================= OBJECT IDENTITY REUSE and IN-PLACE REFILL
# "A result depends on the CONTENT the dataset holds when the call is made" — not on the identity of the objects that hold it.
# Call sequences over {bin, fourier_resample, pad+crop} in which consecutive calls see OTHER content behind the SAME identity:
#   refill        one Dataset for the whole sequence; between calls the caller writes other content into it: ds.array[...] = x
#   refill_view   the same, written through a flat NumPy view of ds.array that the caller keeps
#   rebuild       before every call the previous Dataset and its array are dropped (no reference left) and a fresh Dataset with
#                 other content is built; the new array object is placed at the ADDRESS of the dropped one (id() equal): first
#                 whatever the allocator gives ("natural"), otherwise candidates are allocated and parked until one lands there
#                 ("hunted", at most REUSE_HUNT_LIMIT candidates). Reuse of the data pointer and of id(Dataset) is counted as observed.
# Shape / dtype patterns by position: constant (8x6 float64 | float32 | complex64), shapes A,B,A,.. (8x6, 8x7), dtypes
# float32,float64,complex64,float32,.. (the rebuild transition only: one object cannot change shape or dtype).
# Sequences: every sequence of length `depth` over the call alphabet (all its prefixes, i.e. lengths 2..depth, are judged on the way)
# plus the periodic streams c,c,c,.. and c1,c2,c1,.. of REUSE_STREAM_LEN short-lived datasets. Module re-imported before every
# sequence. EVERY call of a sequence is judged by the lattice oracles (float64 block sums / DFT matrix / pad+crop identity and the
# conservation laws) for the content it was given = what the same call gives on a fresh Dataset with no earlier call. A call that
# fails is judged once more alone (fresh module, fresh objects); only if it passes there the failure belongs to this relation.
REUSE_A, REUSE_B = (8, 6), (8, 7)
REUSE_CFGS = {
    "8x6_float64": [(REUSE_A, "float64")],
    "8x6_float32": [(REUSE_A, "float32")],
    "8x6_complex64": [(REUSE_A, "complex64")],
    "shapes_8x6_8x7_alternating": [(REUSE_A, "float64"), (REUSE_B, "float64")],
    "dtypes_float32_float64_complex64_cycling": [(REUSE_A, "float32"), (REUSE_A, "float64"), (REUSE_A, "complex64")],
}
REUSE_TRANSITIONS = ["refill", "refill_view", "rebuild"]
REUSE_STREAM_LEN = 12
REUSE_HUNT_LIMIT = 2048
REUSE_RELATION = "result_independent_of_object_identity_and_earlier_content"
_REUSE_ALPHA, _REUSE_CONTENT = {}, {}


def reuse_alphabet(shape, dtype):
    """Call descriptors (format of the call-history alphabet) for one shape and dtype. The last member works in place and is
    used by the rebuild transition only (a refilled Dataset has to keep its shape)."""
    key = (tuple(shape), dtype)
    if key not in _REUSE_ALPHA:
        shape = tuple(shape)
        nd = len(shape)
        allax = list(range(nd))

        def R(axes, out, mode="copy"):
            return {"op": "resample", "part": "reuse", "shape": list(shape), "dtype": dtype, "axes": list(axes), "out": list(out), "form": "out_shape", "spelling": "tuple", "mode": mode}

        def B(axes, fac, reducer):
            return {"op": "bin", "shape": list(shape), "dtype": dtype, "axes": list(axes), "factors": list(fac), "reducer": reducer, "mode": "copy", "spelling": "tuple"}

        def P(widths, pad_kind, crop_style):
            return {"op": "pad", "shape": list(shape), "dtype": dtype, "pad_kind": pad_kind, "widths": [list(w) for w in widths], "mode": "copy", "crop_style": crop_style}

        _REUSE_ALPHA[key] = [
            R(allax, [2 * n for n in shape]),                     # up-sampling, all axes
            R(allax, list(shape)),                                # unchanged shape: the identity
            R([nd - 1], [shape[-1] - 1]),                         # one axis, down, even <-> odd
            B(allax, [2] * nd, "sum"),
            B([0], [3], "mean"),                                  # 8 = 2*3 + remainder 2
            P([widths_for(3)] * nd, "output_shape", "all"),
            P([(1, 2)] + [(0, 1)] * (nd - 1), "pad_width", "axis_by_axis"),
            R(allax, [2 * n for n in shape], mode="inplace"),     # rebuild only
        ]
    return _REUSE_ALPHA[key]


def reuse_members(transition):
    n = len(reuse_alphabet(REUSE_A, "float64"))
    return list(range(n)) if transition == "rebuild" else list(range(n - 1))


def reuse_content(shape, dtype, seed, k):
    """Content of the k-th dataset of a sequence: seeded, different for every k (and with its own mean)."""
    key = (tuple(shape), dtype, seed, k)
    if key not in _REUSE_CONTENT:
        a = make_array(tuple(shape), dtype, seed, tag=20 + k)
        a = (a + np.asarray(3.0 * (k + 1), dtype=a.dtype)).astype(a.dtype)
        a.flags.writeable = False
        _REUSE_CONTENT[key] = a
    return _REUSE_CONTENT[key]


def reuse_sequences(transition, depth, first):
    """All index sequences of this part whose first call is alphabet member `first`."""
    m = reuse_members(transition)
    for rest in itertools.product(m, repeat=depth - 1):
        yield (first,) + rest
    yield (first,) * REUSE_STREAM_LEN
    for j in m:
        if j != first:
            yield (first, j) * (REUSE_STREAM_LEN // 2)


def reuse_build(a, target):
    """A fresh Dataset on a fresh array with the contents of `a`; the array OBJECT is placed at address `target` (the id() of the array
    dropped just before) if the allocator can be brought to hand that address out again.
    Returns (dataset, (id(array), data pointer, id(dataset)), how) with how in first / natural / hunted / missed."""
    if _DATASET_CLS is not None:
        Dataset = _DATASET_CLS
    else:
        from quantem.core.datastructures import Dataset
    origin, sampling, units = meta(a.ndim)
    x = np.empty(a.shape, dtype=a.dtype)
    how = "first" if target is None else "natural"
    if target is not None and id(x) != target:
        parked = [x]
        how = "missed"
        for _ in range(REUSE_HUNT_LIMIT):
            x = np.empty(a.shape, dtype=a.dtype)
            if id(x) == target:
                how = "hunted"
                break
            parked.append(x)
        else:
            x = parked[0]
        del parked
    x[...] = a
    d = Dataset.from_array(x, origin=list(origin), sampling=list(sampling), units=list(units))
    arr = d.array
    if arr is not x:
        how = "library_copied"
    ids = (id(arr), arr.__array_interface__["data"][0], id(d))
    return d, ids, how


def run_reuse_sequence(fm, t, seed, transition, cfgname, idxs, only_step=None):
    """Execute one sequence, judge every call, record cases / failures in t. Returns the number of failing calls."""
    global _DATASET_OBJ
    pattern = REUSE_CFGS[cfgname]
    n = len(idxs)
    descs, contents = [], []
    for k, i in enumerate(idxs):
        shape, dtype = pattern[k % len(pattern)]
        descs.append(reuse_alphabet(shape, dtype)[i])
        contents.append(reuse_content(shape, dtype, seed, k))
    fm.fresh()
    results = [None] * n   # filled by index: nothing is allocated and kept between a call and the next build
    hows = [None] * n
    reused = [None] * n
    d = view = ids = None
    for k in range(n):
        a, c = contents[k], descs[k]
        if transition == "rebuild" or d is None:
            prev = ids
            d = view = None  # the previous Dataset and its array are gone here (nothing else refers to them)
            d, ids, how = reuse_build(a, prev[0] if prev is not None else None)
            hows[k] = how
            reused[k] = (False, False, False) if prev is None else (ids[0] == prev[0], ids[1] == prev[1], ids[2] == prev[2])
            if transition == "refill_view":
                view = d.array.reshape(-1)
                if not np.shares_memory(view, d.array):
                    raise Broken("reshape(-1) of a fresh C-contiguous array is not a view")
        else:
            arr = d.array
            if (id(arr), arr.__array_interface__["data"][0], id(d)) != ids or arr.shape != a.shape or arr.dtype != a.dtype:
                # an earlier copying call replaced or reshaped the array of its source (itself reported by that call's oracle)
                d = view = None
                d, ids, how = reuse_build(a, None)
                hows[k], reused[k] = "rebuilt_after_source_changed", (False, False, False)
                if transition == "refill_view":
                    view = d.array.reshape(-1)
            else:
                if transition == "refill":
                    d.array[...] = a
                else:
                    view[...] = a.reshape(-1)
                hows[k], reused[k] = "same_object", (True, True, True)
            del arr
        _DATASET_OBJ = d
        if transition == "rebuild":
            d = None  # the only reference is handed to the call below
        try:
            results[k] = do_call_on(c, a)
        finally:
            _DATASET_OBJ = None
    d = view = None
    nfail = 0
    order = BIN_ORDER + FR_ORDER + PAD_ORDER
    for k in range(n):
        status, probs, info = results[k]
        c = descs[k]
        t.extra["reuse_calls"] += 1
        t.extra["reuse_calls_" + transition] += 1
        if k > 0:
            t.extra[f"reuse_{transition}_transitions"] += 1
            # natural / hunted and the (unforced) reuse of data pointer and id(Dataset) depend on the heap of the worker process: they are
            # shown in failure messages but kept out of the evidence counters; "array id reused" is forced and therefore reproducible
            t.extra[f"reuse_{transition}_{'array_id_reused' if hows[k] in ('natural', 'hunted') else hows[k]}"] += 1
        same_identity = k > 0 and bool(reused[k][0])
        t.case(key=("reuse", transition, cfgname, tuple(idxs[: k + 1])) if same_identity else None, nontrivial=same_identity,
               outcome=("reuse", transition, c["op"], status, info.get("out_shape"), not probs))
        if not probs or (only_step is not None and k != only_step):
            continue
        nfail += 1
        probs.sort(key=lambda p: order.index(p[0]))
        fm.fresh()
        alone = do_call_on(c, contents[k])[1]  # fresh module, fresh Dataset, fresh array, no earlier call
        case = {"op": "reuse", "transition": transition, "cfg": cfgname, "calls": [int(i) for i in idxs], "step": k}
        if alone:
            alone.sort(key=lambda p: order.index(p[0]))
            t.fail({"op": c["op"], "relation": alone[0][0], "spelling": c.get("spelling", c.get("pad_kind")), "via": "reuse-alone"}, case,
                   f"alone, on a freshly imported module: {call_text(c)}: {alone[0][1]}")
            continue
        between = {"refill": "ds.array[...] = other content", "refill_view": "other content written through a flat view of ds.array",
                   "rebuild": "the Dataset and its array dropped and a fresh Dataset built"}[transition]
        idtxt = "same Dataset and array object" if transition != "rebuild" else (
            f"new array {'at the address (id) of the dropped one' if reused[k][0] else 'at another address'} [{hows[k]}], data pointer {'reused' if reused[k][1] else 'new'}, id(Dataset) {'reused' if reused[k][2] else 'new'}")
        t.fail({"op": c["op"], "relation": REUSE_RELATION, "broken": probs[0][0], "transition": transition},
               case,
               f"[{transition}, {cfgname}] call {k + 1} of a sequence, after {call_text(descs[k - 1])}{f' (and {k - 1} call(s) before it)' if k > 1 else ''}; between calls: {between}; {idtxt}. "
               f"{call_text(c)} fails for the content it was given: {probs[0][1]} (alone, on a fresh Dataset and a freshly imported module, the same call on the same content passes)")
    return nfail


def reuse_item(item, seed=0):
    transition, cfgname, depth, first = item
    t = Tally()
    with FreshModule() as fm:
        for idxs in reuse_sequences(transition, depth, first):
            run_reuse_sequence(fm, t, seed, transition, cfgname, idxs)
            t.extra["reuse_sequences"] += 1
    if transition == "rebuild":
        t.extra["reuse_rebuild_items"] += 1
        t.extra["reuse_rebuild_items_with_id_reuse_observed"] += int(t.extra["reuse_rebuild_array_id_reused"] > 0)
    return t


def reuse_items(quick):
    """(transition, shape/dtype pattern, depth, first call). Quick: depth 4 on 8x6 float64 for every transition, depth 3 elsewhere."""
    items = []
    for transition in REUSE_TRANSITIONS:
        for cfgname, pattern in REUSE_CFGS.items():
            if transition != "rebuild" and len(pattern) > 1:
                continue  # one object keeps its shape and dtype
            depth = 4 if (cfgname == "8x6_float64" or not quick) else 3
            for first in reuse_members(transition):
                items.append((transition, cfgname, depth, first))
    return items


# ============================================================================= enumeration
def bin_items(quick):
    items = []
    for n in range(1, 8):
        for dt in DTYPES:
            items.append(((n,), dt))
    for i, s in enumerate(itertools.product(range(1, 8), repeat=2)):
        for dt in (DTYPES if not quick else [DTYPES[i % 6], DTYPES[(i + 3) % 6]]):  # quick: two dtypes per shape, rotating
            items.append((s, dt))
    if quick:
        s3 = list(itertools.product([2, 3, 5], repeat=3))
        s4 = list(SELECTED_4D)
        for i, s in enumerate(s3):
            items.append((s, DTYPES[i % 6]))
    else:
        s3 = list(itertools.product([2, 3, 4, 5], repeat=3))
        s4 = list(itertools.product([2, 3, 4, 5], repeat=4))
        for s in s3:
            for dt in DTYPES:
                items.append((s, dt))
    for i, s in enumerate(s4):  # one dtype per 4-D shape, rotating through all six
        items.append((s, DTYPES[(i + sum(s)) % 6]))
    return items, len(s3), len(s4)


def fr_items(quick):
    nmax2 = 4 if quick else 6
    items, deltas, updowns, scalars = [], [], [], []
    ddt = ["float64", "complex128"] if quick else ["float64", "complex128", "float32", "int16"]
    udt = ["float64", "complex128", "float32"]
    # 1-D: every input length 1..8 x every output length 1..2n+1
    for n in range(1, 9):
        outs = [(m,) for m in range(1, 2 * n + 2)]
        for dt in DTYPES:
            items.append(("1d", (n,), dt, (0,), outs))
            scalars.append(((n,), dt))
        for dt in ddt:
            deltas.append(((n,), dt, (0,), outs))
        for dt in udt:
            updowns.append(((n,), dt, [(m,) for m in range(n, 2 * n + 2)]))
    # 2-D: every input shape x every output shape up to nmax2 x nmax2
    shapes2 = list(itertools.product(range(1, nmax2 + 1), repeat=2))
    dt2 = ["float64", "complex64", "int16"] if quick else DTYPES
    for s in shapes2:
        for dt in dt2:
            items.append(("2d", s, dt, (0, 1), shapes2))
        for dt in ddt:
            deltas.append((s, dt, (0, 1), shapes2))
        # axis subsets: one axis, every output length 1..2n+1
        for ax in (0, 1):
            outs = [(m,) for m in range(1, 2 * s[ax] + 2)]
            for dt in dt2:
                items.append(("2d-subset", s, dt, (ax,), outs))
            deltas.append((s, "float64", (ax,), outs))
        ups = list(itertools.product(*[range(n, 2 * n + 2) for n in s]))
        for dt in udt if not quick else ["float64", "complex128"]:
            updowns.append((s, dt, ups))
    for s in [(3, 4), (5, 2)] if quick else [(3, 4), (5, 2), (6, 5)]:
        for dt in (["float64", "int16"] if quick else DTYPES):
            scalars.append((s, dt))
    # 3-D selected: per-axis output in {n-1, n, n+1, 2n}, every axis subset
    shapes3 = [(3, 4, 5)] if quick else [(3, 4, 5), (4, 3, 2), (2, 5, 3)]
    for s in shapes3:
        for axes in axis_subsets(3):
            outs = list(itertools.product(*[[max(1, s[ax] - 1), s[ax], s[ax] + 1, 2 * s[ax]] for ax in axes]))
            for dt in (["float64", "complex64", "int16"] if quick else DTYPES):
                items.append(("3d", s, dt, axes, outs))
            if len(axes) <= 2 or not quick:
                deltas.append((s, "float64", axes, outs if len(axes) < 3 else outs[::5]))
        ups = list(itertools.product(*[[n, n + 1, 2 * n] for n in s]))
        updowns.append((s, "float64", ups))
        scalars.append((s, "float64"))
    return items, deltas, updowns, scalars


def pad_items(quick):
    shapes = [(n,) for n in range(1, 6)] + list(itertools.product(range(1, 5), repeat=2))
    shapes += [(2, 3, 2)] if quick else [(2, 3, 2), (3, 2, 3), (2, 2, 2)]
    shapes += [(2, 3, 2, 3)] if not quick else []
    items = []
    for i, s in enumerate(shapes):
        if len(s) == 1 or (len(s) == 2 and not quick):
            for dt in DTYPES:
                items.append((s, dt))
        else:
            for dt in (DTYPES if not quick else [DTYPES[i % 6], DTYPES[(i + 3) % 6]]):
                items.append((s, dt))
    return items


# ============================================================================= run / replay
def run(ctx):
    quick = ctx.quick
    ctx.assume(
        "a bin factor larger than the axis length leaves zero blocks on that axis; an empty result with the right shape and sampling, or a rejection, are both accepted (counted as bin_empty / bin_rejected)",
        "Fourier band convention: a length-L transform holds the signed frequencies -(L//2) .. L-L//2-1 (fftshift order); the resampled signal keeps the frequencies common to input and output, is scaled by N_out/N_in, and real input gives the real part",
        "pad(output_shape) puts floor(extra/2) pixels before and ceil(extra/2) after the data on every axis, filled with zeros; crop takes (start, stop) with stop = -after (0 = to the end)",
        "negative axis indices and permuted axis orders are spellings of the same axis subset and must give the same result (or be rejected with an exception, which would be reported as 'raises')",
        "origin/sampling alphabet: origin_k = 1 + 0.5k - 3(k mod 2), sampling_k = 0.5 + 0.25k (distinct per axis, exactly representable)",
        "integer data: |values| <= 1e9 so that float64 block sums are exact; int16 covers its whole range",
        "memory layouts: the library keeps the array it is given; no operation writes into it on HEAD, so read-only and broadcast sources must work for in-place variants too; 0-d datasets are not explored",
        "argument spellings: which spellings are accepted is the library's choice; a spelling must either raise and change nothing or give the bit-identical result of the canonical spelling",
        "copies: copy.copy / copy.deepcopy / pickle / ds.copy() (save+load is not in the family); re-entrancy: the documented hook _copy_custom_attributes of a user subclass, called once per copying operation",
        "module state: every lattice item and every call history starts from a freshly re-executed quantem.core.datastructures.dataset (importlib.reload semantics); "
        "a lattice point that fails is re-judged alone on a fresh module and, if it passes there, reported as a dependence on earlier calls with the shortest history found",
        "identity reuse: id() of an ndarray is its address; CPython's allocator hands a freed address out again, which the check forces by parking candidate arrays until one lands on the address of the dropped array "
        "(counted; no reuse observed = broken check). Writing into ds.array in place (ds.array[...] = x, or through a view) is a legitimate way to change the content of a Dataset; the next call must see the new content",
    )

    a0 = make_array((4, 5), "complex64", ctx.seed, tag=9)

    def once():
        cache = {}
        flat = wide(a0).ravel().tolist()
        r1 = check_bin(a0, flat, cache, (0, 1), (2, 3), "mean", "copy", "tuple")
        r2 = check_resample(a0, (0, 1), (6, 3), "out_shape", "tuple", "inplace")
        r3 = check_pad(a0, "output_shape", ((1, 2), (0, 1)), "copy", "axis_by_axis")
        return [(s, p, sorted(i.items(), key=str)) for s, p, i in (r1, r2, r3)]

    ctx.selftest(once)

    bitems, n3, n4 = bin_items(quick)
    ctx.say(f"bin: {len(bitems)} (shape, dtype) items ({n3} 3-D shapes, {n4} 4-D shapes)")
    # heavy items first so that the pool drains evenly
    order = sorted(range(len(bitems)), key=lambda i: -int(np.prod(bitems[i][0])) * 6 ** len(bitems[i][0]))
    ctx.pmap(bin_item, [bitems[i] for i in order], chunk=1, label="bin", seed=ctx.seed)

    items, deltas, updowns, scalars = fr_items(quick)
    ctx.say(f"resample: {len(items)} seeded items, {len(deltas)} delta-basis items, {len(updowns)} up/down items, {len(scalars)} scalar-factor items")
    ctx.pmap(fr_item, items, chunk=2, label="resample", seed=ctx.seed)
    ctx.pmap(delta_item, sorted(deltas, key=lambda it: -int(np.prod(it[0])) * len(it[3])), chunk=1, label="delta-basis", seed=ctx.seed)
    ctx.pmap(updown_item, sorted(updowns, key=lambda it: -int(np.prod(it[0])) * len(it[2])), chunk=1, label="up-down", seed=ctx.seed)
    ctx.pmap(scalar_factor_item, scalars, chunk=2, label="scalar-factor", seed=ctx.seed)

    depth = 2 if quick else 3
    halpha = history_alphabet(quick)
    ctx.say(f"call histories: alphabet of {len(halpha)} calls, depth {depth}, module re-imported before every history")
    ctx.pmap(history_item, list(range(len(halpha))), chunk=1, label="call-histories", seed=ctx.seed, depth=depth, quick=quick)
    import quantem.core.datastructures as _pkg
    from quantem.core.datastructures.dataset import Dataset as _now

    if _pkg.Dataset is not _now or len(getattr(_now, "_registry", {})) == 0:
        raise Broken("Dataset class / registry inconsistent after the call-history part")
    if ctx.tally.extra["history_sequences"] < len(halpha) ** 2:
        raise Broken("call-history part did not enumerate every ordered pair")

    litems = layout_items(quick)
    ctx.say(f"memory layouts: {len(litems)} (op, shape, dtype) items x {len(LAYOUTS)} layouts")
    ctx.pmap(layout_item, sorted(litems, key=lambda it: -len(layout_calls(*it))), chunk=1, label="layouts", seed=ctx.seed)
    sitems = spelling_items(quick)
    ctx.say(f"argument spellings: {len(sitems)} (op, shape, dtype) items")
    ctx.pmap(spelling_item, sorted(sitems, key=lambda it: -int(np.prod(it[1])) * 3 ** len(it[1])), chunk=1, label="spellings", seed=ctx.seed)
    exl = ctx.tally.extra
    if any(exl["layout_points_" + lay] < 500 for lay in LAYOUTS) or exl["spelling_accepted"] < 1000 or exl["spelling_rejected"] < 100:
        raise Broken("layout / spelling sub-lattices degenerate")

    cshapes = [(4, 6), (4, 3, 2)] if quick else [(4, 6), (5, 4), (6,), (4, 3, 2), (2, 4, 2, 2)]
    cdts = ["float64", "int16"] if quick else ["float64", "int16", "complex64", "float32"]
    ctx.pmap(copies_item, [(sh, dt) for sh in cshapes for dt in cdts], chunk=1, label="copies", seed=ctx.seed)
    ctx.pmap(reentrant_item, [(sh, dt) for sh in cshapes for dt in cdts], chunk=1, label="re-entrant", seed=ctx.seed)
    if ctx.tally.extra["copies_points"] < 500 or ctx.tally.extra["reentrant_points"] < 100:
        raise Broken("copies / re-entrant families degenerate")

    ritems = reuse_items(quick)
    ctx.say(f"identity reuse / in-place refill: {len(ritems)} (transition, shape-dtype pattern, depth, first call) items")
    ctx.pmap(reuse_item, sorted(ritems, key=lambda it: -len(reuse_members(it[0])) ** it[2]), chunk=1, label="identity-reuse", seed=ctx.seed)
    exr = ctx.tally.extra
    ctx.say("identity reuse: " + ", ".join(f"{k[6:]}={exr[k]}" for k in sorted(exr) if k.startswith("reuse_")))
    if exr["reuse_rebuild_items_with_id_reuse_observed"] < exr["reuse_rebuild_items"] or exr["reuse_rebuild_items"] == 0:
        raise Broken("identity reuse: in at least one rebuild item no new array ever landed at the address (id) of the dropped one; the family would pass vacuously")
    if 2 * exr["reuse_rebuild_array_id_reused"] < exr["reuse_rebuild_transitions"]:
        raise Broken(f"identity reuse: the array id was reused in only {exr['reuse_rebuild_array_id_reused']} of {exr['reuse_rebuild_transitions']} drop-and-rebuild transitions")
    if exr["reuse_refill_same_object"] < exr["reuse_refill_transitions"] or exr["reuse_refill_view_same_object"] < exr["reuse_refill_view_transitions"] or exr["reuse_refill_transitions"] == 0:
        raise Broken("in-place refill: a copying call replaced the array of its source, the refill sequences did not keep one object")

    pitems = pad_items(quick)
    ctx.say(f"pad/crop: {len(pitems)} (shape, dtype) items")
    ctx.pmap(pad_item, pitems, chunk=1, label="pad-crop", seed=ctx.seed)

    ex = ctx.tally.extra
    if STATS:
        for k in sorted(k for k in ex if k.startswith("stat_")):
            ctx.say(f"  {k} = {ex[k]}")
    ctx.coverage.update(
        exhaustive=True,
        alphabet={
            "dtypes": DTYPES,
            "bin": {
                "shapes": "1-D: 1..7 (all dtypes); 2-D: {1..7}^2 (" + ("two dtypes per shape, rotating" if quick else "all dtypes") + "); 3-D: " + ("{2,3,5}^3, one dtype per shape" if quick else "{2..5}^3 (all dtypes)") + "; 4-D: " + ("6 selected shapes" if quick else "{2..5}^4") + ", one dtype per shape rotating through all six",
                "axes": "every non-empty axis subset",
                "factors": "every tuple over {1,2,3,4} plus every tuple with exactly one factor = axis length + 1",
                "reducers": REDUCERS,
                "modes": MODES,
                "spellings": ["tuple", "none", "scalar", "scalar_none", "int_axis", "negative", "permuted", "list"],
                "spelling_sublattice": "reducer=sum, copy; every 1-D..3-D shape and the selected 4-D shapes " + str([list(x) for x in SELECTED_4D]),
            },
            "resample": {
                "1d": "input 1..8 x output 1..2n+1",
                "2d": f"every input shape x every output shape up to {4 if quick else 6}x{4 if quick else 6}; one-axis subsets with output 1..2n+1; dtypes {['float64', 'complex64', 'int16'] if quick else 'all'}",
                "3d": "selected shapes, every axis subset, per-axis output in {n-1, n, n+1, 2n}",
                "forms": ["out_shape", "factors (tuple)", "factors (scalar) in " + str([round(f, 4) for f in SCALAR_FACTORS])],
                "spellings": ["tuple", "none", "int_axis", "negative", "permuted"],
                "modes": MODES,
                "delta_basis": "complete basis of every 1-D/2-D input shape (x (1+2j) for complex dtypes), every output shape",
                "up_then_down": "delta basis and one seeded array with the Nyquist rows removed; every up-shape with n..2n+1 per axis",
            },
            "memory_layouts": {
                "layouts": LAYOUTS,
                "items": [[it[0], list(it[1]), it[2]] for it in litems],
                "sub_lattice": "bin: every axis subset x factors {1,2,3}^k x reducers x modes; resample: every axis subset x per-axis output {n-1, n+1, 2n} x modes; pad/crop: extra {0,1,2} per axis x modes x {all, axis_by_axis}",
            },
            "argument_spellings": {
                "items": [[it[0], list(it[1]), it[2]] for it in sitems],
                "spellings": "reducer in other letter cases; factors / out_shape / output_shape / pad_width / crop_widths / axes as list, ndarray, tuples of np.int64 / np.uint8 / 0-d arrays / np.float32 / Python floats, scalars as np.int64 / np.uint8 / np.float32 / np.float64 / 0-d array; factors vs out_shape form",
                "oracle": "rejected (exception, dataset unchanged) or bit-identical to the canonical spelling",
            },
            "copies": {
                "copy_kinds": COPY_KINDS,
                "first_ops": "bin(2), bin(2, axes=(0,), mean), fourier_resample(n+1), pad(n+3), crop(1 from the front) — in place and copying",
                "applied_to": ["original", "copy"],
                "follow_ups": "bin all axes, bin last axis mean in place, fourier_resample n+2, pad+crop — judged by the lattice oracles on the OTHER object",
                "items": [[list(sh), dt] for sh in cshapes for dt in cdts],
            },
            "re_entrant": {
                "hook": "_copy_custom_attributes of a user subclass",
                "pairs": "every (outer, inner) in " + str(REENTRANT_OPS) + " squared; variants: hook runs the inner op on the source; two threads with the interleaving pinned by threading.Event; hook raises",
            },
            "identity_reuse_and_refill": {
                "transitions": {"refill": "one Dataset, ds.array[...] = other content between calls", "refill_view": "the same through a flat view of ds.array kept by the caller",
                                "rebuild": f"previous Dataset and array dropped, fresh Dataset with other content whose array object sits at the id() of the dropped one (allocator's choice first, else up to {REUSE_HUNT_LIMIT} parked candidates)"},
                "shape_dtype_patterns_by_position": {k: [[list(sh), dt] for sh, dt in v] for k, v in REUSE_CFGS.items()},
                "patterns_with_more_than_one_member": "rebuild only",
                "calls": {"8x6": [call_text(c) for c in reuse_alphabet(REUSE_A, "float64")], "last_member": "in place, rebuild only"},
                "sequences": f"every sequence of length depth (prefixes = lengths 2..depth judged on the way) plus the streams c,c,.. and c1,c2,c1,.. of {REUSE_STREAM_LEN} datasets; depth 4 on 8x6 float64" + (", 3 on the other patterns" if quick else " and on every other pattern"),
                "oracle": "every call judged by the lattice oracles for the content it was given; a failing call is re-judged alone on a fresh module and fresh objects",
            },
            "call_histories": {
                "alphabet": [call_text(c) for c in halpha],
                "histories": "every ordered pair of calls" + ("" if quick else " and every triple whose middle call is every third alphabet member") + "; quantem.core.datastructures.dataset re-imported before each; last call judged by the lattice oracles; every call also judged alone",
            },
            "pad_crop": {
                "shapes": "1-D 1..5, 2-D {1..4}^2, selected 3-D" + ("" if quick else " and 4-D"),
                "output_shape": "0..4 extra pixels per axis, all combinations",
                "pad_width_forms": "((b,a),...) over {0,1,2}, int, (b,a) for 1-D/2-D",
                "crop_styles": CROP_STYLES,
                "modes": MODES,
            },
        },
        bounds={
            "bin_items": len(bitems),
            "resample_items": len(items),
            "delta_items": len(deltas),
            "updown_items": len(updowns),
            "pad_items": len(pitems),
            "history_alphabet": len(halpha),
            "history_depth": depth,
            "reuse_items": len(ritems),
            "reuse_depths": sorted({it[2] for it in ritems}),
            "reuse_stream_length": REUSE_STREAM_LEN,
            "reuse_hunt_limit": REUSE_HUNT_LIMIT,
        },
        tolerances={"float64_complex128_int": TOL64, "float32_complex64": TOL32, "metadata": TOL_META},
    )
    if ex["bin_ok"] < 1000 or ex["bin_points_with_dropped_remainder"] < 100 or (ex["bin_empty"] + ex["bin_rejected"]) < 10:
        raise Broken("bin lattice degenerate (too few ok / remainder / oversize points)")
    if ex["resample_up"] < 100 or ex["resample_down"] < 100 or ex["resample_mixed"] < 10 or ex["resample_same"] < 10 or ex["resample_delta_calls"] < 1000 or ex["resample_updown_calls"] < 1000:
        raise Broken("resample lattice degenerate")
    if ex["pad_ok"] < 500 or ex["pad_points_with_odd_extra"] < 100:
        raise Broken("pad/crop lattice degenerate")


def replay(ctx, case):
    op = case["op"]
    seed = ctx.seed
    if op in ("copies", "reentrant"):
        t = copies_item((case["shape"], case["dtype"]), seed=seed) if op == "copies" else reentrant_item((case["shape"], case["dtype"]), seed=seed)
        from mc.harness import jsonable as _js

        for f in t.fails:
            if f["case"] == _js(case) or f["case"] == case:
                print("  observed:", f["msg"])
                ctx.fail(f["cls"], case, f["msg"])
        print("  expected: " + ("the other object is bit-identical to what it was and still obeys the laws" if op == "copies" else "inner and outer results equal the two calls made one after the other; the source is unchanged"))
        return
    if op == "layout":
        t = layout_item((case["op_kind"], case["shape"], case["dtype"]), seed=seed)
        for f in t.fails:
            if f["case"] == case:
                print("  observed:", f["msg"])
                ctx.fail(f["cls"], case, f["msg"])
        print(f"  expected: the same result as for a C-contiguous array with the same logical contents (layout {case['layout']!r}), source array untouched")
        return
    if op == "spelling":
        t = spelling_item((case["op_kind"], case["shape"], case["dtype"]), seed=seed)
        for f in t.fails:
            if f["case"] == case:
                print("  observed:", f["msg"])
                ctx.fail(f["cls"], case, f["msg"])
        print("  expected: the spelling is rejected with an exception and nothing changes, or it gives the bit-identical result of the canonical spelling")
        return
    if op == "reuse":
        t = Tally()
        with FreshModule() as fm:
            run_reuse_sequence(fm, t, seed, case["transition"], case["cfg"], tuple(case["calls"]), only_step=case["step"])
        pattern = REUSE_CFGS[case["cfg"]]
        for k, i in enumerate(case["calls"][: case["step"] + 1]):
            sh, dt = pattern[k % len(pattern)]
            print(f"  call {k + 1}: {call_text(reuse_alphabet(sh, dt)[i])} on content #{k}")
        print(f"  between calls ({case['transition']}); array id reused in {t.extra['reuse_' + case['transition'] + '_array_id_reused'] + t.extra['reuse_' + case['transition'] + '_same_object']} of {t.extra['reuse_' + case['transition'] + '_transitions']} transitions of this replay")
        for f in t.fails:
            print("  observed:", f["msg"])
            ctx.fail(f["cls"], case, f["msg"])
        print("  expected: every call gives what the same call gives on a fresh Dataset holding that content (float64 block sums / DFT-matrix resampler / pad+crop identity)")
        return
    if op == "history":
        hist = case["history"]
        with FreshModule() as fm:
            fm.fresh()
            alone, _ = do_call(hist[-1], seed)
            fm.fresh()
            for c in hist[:-1]:
                do_call(c, seed)
            probs, info = do_call(hist[-1], seed)
        for i, c in enumerate(hist):
            print(f"  call {i + 1}: {call_text(c)}")
        print(f"  last call after the history: {'FAILS ' + str([p[0] for p in probs]) if probs else 'passes'}; alone on a freshly imported module: {'FAILS ' + str([p[0] for p in alone]) if alone else 'passes'}")
        print(f"  observed: shape={info.get('out_shape')} origin={info.get('origin')} sampling={info.get('sampling')}; expected shape={info.get('expected_shape')} and the lattice oracles")
        if probs:
            last = hist[-1]
            if len(hist) == 1 or alone:
                ctx.fail({"op": last["op"], "relation": probs[0][0], "via": "history-alone"}, case, probs[0][1])
            else:
                ctx.fail({"op": last["op"], "relation": "result_independent_of_earlier_calls", "broken": probs[0][0]}, case, f"after {len(hist) - 1} earlier call(s): {probs[0][1]}")
        return
    if op == "bin":
        shape = tuple(case["shape"])
        a = make_array(shape, case["dtype"], seed, tag=1)
        st, probs, info = check_bin(a, wide(a).ravel().tolist(), {}, tuple(case["axes"]), tuple(case["factors"]), case["reducer"], case["mode"], case["spelling"])
        print(f"  Dataset({case['dtype']}{shape}).{info['call']}")
        print(f"  observed: status={st} shape={info.get('out_shape')} origin={info.get('origin')} sampling={info.get('sampling')} {info.get('raised', '')}")
        print(f"  expected: shape={info.get('expected_shape')}, pixel-loop block {case['reducer']}s, sampling x factor, block centres preserved")
        for rel, msg in probs:
            ctx.fail({"op": "bin", "relation": rel, "spelling": case["spelling"]}, case, msg)
        return
    if op == "pad":
        shape = tuple(case["shape"])
        a = make_array(shape, case["dtype"], seed, tag=6)
        st, probs, info = check_pad(a, case["pad_kind"], tuple(tuple(w) for w in case["widths"]), case["mode"], case["crop_style"])
        print(f"  Dataset({case['dtype']}{shape}).{info['call']} then crop[{case['crop_style']}]")
        print(f"  observed: padded shape={info.get('out_shape')} cropped shape={info.get('cropped_shape')} {info.get('raised', '')}")
        print(f"  expected: padded shape={info.get('expected_shape')}, data at offset floor(extra/2), crop returns the original {shape}")
        for rel, msg in probs:
            ctx.fail({"op": "pad_crop", "relation": rel, "pad_kind": case["pad_kind"]}, case, msg)
        return
    part = case.get("part")
    shape = tuple(case["shape"])
    if part == "delta":
        t = delta_item((shape, case["dtype"], tuple(case["axes"]), [tuple(case["out"])]), seed=seed)
    elif part == "updown":
        t = updown_item((shape, case["dtype"], [tuple(case["up"])]), seed=seed)
    elif part == "scalar_factor":
        t = scalar_factor_item((shape, case["dtype"]), seed=seed)
        t.fails = [f for f in t.fails if f["case"] == case]
    else:
        a = make_array(shape, case["dtype"], seed, tag=2)
        st, probs, info = check_resample(a, tuple(case["axes"]), tuple(case["out"]), case["form"], case["spelling"], case["mode"])
        print(f"  Dataset({case['dtype']}{shape}).{info['call']}")
        print(f"  observed: status={st} shape={info.get('out_shape')} origin={info.get('origin')} sampling={info.get('sampling')} deviation from DFT-matrix resampler={info.get('dev_oracle')} {info.get('raised', '')}")
        print(f"  expected: shape={info.get('expected_shape')}, equal to the DFT-matrix resampler, mean/centre/extent preserved")
        for rel, msg in probs:
            ctx.fail({"op": "resample", "relation": rel, "spelling": case["spelling"], "form": case["form"]}, case, msg)
        return
    for f in t.fails:
        print("  observed:", f["msg"])
        ctx.fail(f["cls"], case, f["msg"])
