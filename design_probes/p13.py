import numpy as np, warnings, torch, tempfile, os, itertools
warnings.simplefilter("ignore")
from quantem.core.io.serialize import AutoSerialize, load
class Inner(AutoSerialize): pass
class Mid(AutoSerialize): pass
class Top(AutoSerialize): pass
def build():
    i=Inner(); i.a=1; i.arr=np.arange(3); i.t=torch.ones(2); i.s="x"
    m=Mid(); m.a=2; m.inner=i; m.b=[1,2]; m.arr=np.zeros(2)
    t=Top(); t.a=3; t.mid=m; t.c={"k":1}; t.arr=np.ones(2); t.p=3.5; t.flag=True
    return t
def attrs(o,depth=0, _x=1):
    out={}
    for k,v in vars(o).items():
        out[k]=attrs(v) if isinstance(v,AutoSerialize) else type(v).__name__
    return out
def model(o, names, types=()):
    out={}
    for k,v in vars(o).items():
        if k in names or (types and isinstance(v,types)): continue
        out[k]=model(v,names,types) if isinstance(v,AutoSerialize) else type(v).__name__
    return out
names_u=["a","arr","mid","inner","t","zzz"]
bad=0;n=0
import __main__
for r in range(0,4):
  for names in itertools.combinations(names_u,r):
    for when in ("save","load","both"):
      for store in ("zip","dir"):
        d=tempfile.mkdtemp(); p=os.path.join(d,"o.zip" if store=="zip" else "o")
        t=build()
        t.save(p,store=store,skip=list(names) if when in("save","both") else ())
        l=load(p,skip=list(names) if when in ("load","both") else ())
        n+=1
        if attrs(l)!=model(t,set(names)):
            bad+=1
            if bad<6: print("MISMATCH",names,when,store,attrs(l),model(t,set(names)))
print("name-skip cases",n,"bad",bad)
for types in [(np.ndarray,),(torch.Tensor,),(int,),(Inner,),(str,float),(list,dict)]:
    for store in ("zip",):
        d=tempfile.mkdtemp(); p=os.path.join(d,"o.zip"); t=build(); t.save(p,skip=list(types)); l=load(p)
        ok=attrs(l)==model(t,set(),types); print("type skip",[x.__name__ for x in types],"ok" if ok else ("MISMATCH",attrs(l),model(t,set(),types)))
